#!/usr/bin/env python3
"""Mutation campaign against the interpreters themselves (how much of each assembly file do the monitors really
constrain?).  For every target program, N random single-instruction mutations of the preprocessed text are executed
through backend_check.py --text; a mutation that leaves every monitor silent is a SURVIVOR and is printed.
Mutations: shift amount +-1, one register replaced by a neighbour, memory offset +-4 (+-1 on AVR), operation swapped
(eor<->and, xor<->and, lsl<->lsr, rol<->ror, srli<->slli), instruction deleted, branch condition inverted.
Usage: mutate_asm.py <repo> <permtool> <N per program> [seed]   (not part of any check: a self-assessment tool)"""
import os, random, re, subprocess, sys, tempfile
from concurrent.futures import ThreadPoolExecutor
sys.path.insert(0, os.path.dirname(os.path.abspath(__file__)))
import emu, backend_check

SWAPS = {"eor": "and", "and": "eor", "eors": "ands", "ands": "eors", "xor": "and", "lsl": "lsr", "lsr": "lsl", "lsls": "lsrs", "lsrs": "lsls",
         "rol": "ror", "ror": "rol", "srli": "slli", "slli": "srli", "srliw": "slliw", "slliw": "srliw", "bne": "beq", "beq": "bne", "breq": "brne",
         "brne": "breq", "bnei": "beqi", "beqi": "bnei", "subs": "adds", "movw": "mov", "ldd": "ld"}

def mutate(lines, rnd):
    idxs = [i for i, l in enumerate(lines) if l.startswith(("\t", " ")) and not l.strip().startswith((".", "#", "/"))and l.strip()]
    for _ in range(50):
        i = rnd.choice(idxs)
        l = lines[i]
        kind = rnd.randrange(6)
        m = None
        if kind == 0:
            nums = list(re.finditer(r"(?<![\w.])#?(\d+)\b", l.split(None, 1)[1] if len(l.split(None, 1)) > 1 else ""))
            if nums:
                mm = rnd.choice(nums)
                v = int(mm.group(1)); nv = v + rnd.choice([-1, 1]) if v > 0 else 1
                head = l.split(None, 1)
                ops = head[1]
                ops = ops[:mm.start(1)] + str(nv) + ops[mm.end(1):]
                m = "\t" + head[0] + "\t" + ops
        elif kind == 1:
            regs = list(re.finditer(r"\b([rax])(\d+)\b", l))
            if regs:
                mm = rnd.choice(regs)
                n = int(mm.group(2)); nn = n + rnd.choice([-1, 1])
                if nn >= 0:
                    m = l[:mm.start(2)] + str(nn) + l[mm.end(2):]
        elif kind == 2:
            mn = l.split()[0]
            if mn in SWAPS:
                m = l.replace(mn, SWAPS[mn], 1)
        elif kind == 3:
            m = ""          # delete
        elif kind == 4:
            regs = list(re.finditer(r"\b(a[0-7]|t[0-6]|s[0-9]|r1[0-2]|ip|lr)\b", l))
            if regs:
                mm = rnd.choice(regs)
                repl = {"a": "a%d", "t": "t%d", "s": "s%d"}.get(mm.group(1)[0])
                if repl:
                    m = l[:mm.start()] + repl % rnd.randrange(2, 6) + l[mm.end():]
        else:
            j = rnd.choice(idxs)
            if abs(i - j) == 1:
                out = list(lines); out[i], out[j] = out[j], out[i]
                return out, "swap lines %d/%d: %s <-> %s" % (i, j, lines[i].strip(), lines[j].strip())
        if m is not None and m != l:
            out = list(lines); out[i] = m
            return out, "line %d: %r -> %r" % (i, l.strip(), m.strip())
    return None, None

def main():
    repo, permtool, N = sys.argv[1], sys.argv[2], int(sys.argv[3])
    seed = int(sys.argv[4]) if len(sys.argv) > 4 else 1
    backend = os.path.join(repo, "src", "backend")
    stub = tempfile.mkdtemp(); os.makedirs(stub + "/avr"); open(stub + "/avr/io.h", "w").write("\n")
    work = tempfile.mkdtemp(prefix="tjv-mutasm-")
    jobs = []
    for t, (suffix, family, macros, kw, want) in backend_check.TARGETS.items():
        for kb in (128, 192, 256):
            text = emu.preprocess("%s/tinyjambu-%d-asm-%s.S" % (backend, kb, suffix), macros, backend, stub)
            lines = text.splitlines()
            rnd = random.Random(seed * 1000 + hash((t, kb)) % 1000)
            for n in range(N):
                ml, desc = mutate(lines, rnd)
                if ml is None: continue
                f = os.path.join(work, "%s-%d-%d.txt" % (t, kb, n))
                open(f, "w").write("\n".join(ml) + "\n")
                jobs.append((t, kb, f, desc))
    def run(j):
        t, kb, f, desc = j
        p = subprocess.run([sys.executable, os.path.dirname(os.path.abspath(__file__)) + "/backend_check.py", "--repo", repo, "--target", t, "--keybits", str(kb),
                            "--permtool", permtool, "--text", f], stdout=subprocess.PIPE, stderr=subprocess.PIPE)
        out = p.stdout.decode()
        killed = "\nV " in "\n" + out
        key = re.search(r"^V (\S+)", out, re.M)
        return t, kb, desc, killed, key.group(1) if key else None
    with ThreadPoolExecutor(16) as ex:
        res = list(ex.map(run, jobs))
    surv = [r for r in res if not r[3]]
    print("mutants %d killed %d survivors %d" % (len(res), len(res) - len(surv), len(surv)))
    from collections import Counter
    print("kill reasons:", Counter((r[4] or "").split(":")[0] for r in res if r[3]).most_common())
    for r in surv:
        print("SURVIVOR %s/%d: %s" % (r[0], r[1], r[2]))
main()
