"""Second reading of the assembly files by an independent tool: each file is assembled with LLVM 14
(clang --target / llvm-mc) and the llvm-objdump disassembly is converted back into instruction text that the
same interpreter executes under the same monitors.  A misparse by emu.parse_asm cannot hide: LLVM's reading and
the source reading are both required to equal the specification.  A file that no longer assembles is a violation
for the targets LLVM knows.  LLVM 14 has no Xtensa target, and its AVR disassembler is incomplete (assemble-only)."""
import os, re, subprocess

ASM = {
    # target: (mode, args)
    "armv6": ("clang", ["--target=armv6-none-eabi"]),
    "armv6m": ("clang", ["--target=thumbv6m-none-eabi"]),
    "armv7m": ("clang", ["--target=thumbv7m-none-eabi"]),
    "riscv32i": ("clang", ["--target=riscv32", "-march=rv32i", "-mno-relax"]),
    "riscv64i": ("clang", ["--target=riscv64", "-march=rv64i", "-mno-relax"]),
    "riscv32e": ("mc", ["-triple=riscv32", "-mattr=+e,-relax"]),
    "avr5": ("mc", ["-triple=avr", "-mcpu=atmega2560"]),
}


def assemble(target, path, macros, backend, stub, outdir):
    """-> (object path or None, error text)"""
    mode, args = ASM[target]
    obj = os.path.join(outdir, "%s-%s.o" % (target, os.path.basename(path)))
    if mode == "clang":
        p = subprocess.run(["clang"] + args + ["-I", backend, "-c", path, "-o", obj], stdout=subprocess.PIPE, stderr=subprocess.PIPE)
    else:
        pp = subprocess.run(["cpp", "-undef", "-P", "-x", "assembler-with-cpp", "-I", backend, "-I", stub] + ["-D" + m for m in macros] + [path],
                            stdout=subprocess.PIPE, stderr=subprocess.PIPE)
        if pp.returncode:
            return None, pp.stderr.decode()[-500:]
        src = obj[:-2] + ".s"
        open(src, "wb").write(pp.stdout)
        p = subprocess.run(["llvm-mc-14"] + args + ["-filetype=obj", src, "-o", obj], stdout=subprocess.PIPE, stderr=subprocess.PIPE)
    if p.returncode or not os.path.exists(obj):
        return None, p.stderr.decode()[-800:]
    return obj, ""


def disassembly_text(obj, func):
    """llvm-objdump -d -> text in the syntax emu.parse_asm reads; (text, n_instructions) or (None, reason)."""
    p = subprocess.run(["llvm-objdump-14", "-d", "--no-show-raw-insn", obj], stdout=subprocess.PIPE, stderr=subprocess.PIPE)
    if p.returncode:
        return None, p.stderr.decode()[-300:]
    lines = []
    n = 0
    started = False
    for l in p.stdout.decode().splitlines():
        m = re.match(r"^[0-9a-f]+ <([^>]+)>:$", l.strip())
        if m:
            if m.group(1) == func:
                lines.append(func + ":")
                started = True
            continue
        m = re.match(r"^\s*([0-9a-f]+):\s+(\S+)\s*(.*)$", l)
        if not m or not started:
            continue
        addr, mn, ops = m.group(1), m.group(2), m.group(3)
        ops = ops.split("@")[0].strip()
        if "<unknown>" in mn or "<unknown>" in ops:
            return None, "disassembler does not know the instruction at 0x%s" % addr
        ops = re.sub(r"0x([0-9a-f]+) <[^>]*>", lambda mm: "L_%x" % int(mm.group(1), 16), ops)
        lines.append("L_%x:" % int(addr, 16))
        lines.append("\t%s\t%s" % (mn, ops))
        n += 1
    if not started:
        return None, "function %s not found in the object file" % func
    return "\n".join(lines) + "\n", n
