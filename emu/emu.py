"""Small instruction-set interpreters with ABI monitors for the TinyJAMBU assembly backends (C05 monitor 2).

Each shipped .S file is preprocessed with the host cpp under exactly the macro set that selects it in
tinyjambu-backend-select.h and the resulting instruction text is executed instruction by instruction.
The interpreter is the instrumentation: it calls the function under the platform ABI and watches
  * result      - the four state words must equal the bit-serial specification (checked by the caller),
  * write set   - only bytes 0..15 of the state struct and the function's own stack frame may be written;
                  reads stay inside the struct (16 + key bytes) and stack bytes the function itself wrote,
  * alignment   - word accesses are naturally aligned,
  * ABI         - callee-saved registers, stack pointer and return address restored; no unknown mnemonic, no
                  fall-through past the end, bounded step count,
  * trace       - the executed pc sequence (hashed) must not depend on the data for a fixed round count.

Stdlib only.  Families: ARM (ARM / Thumb-1 / Thumb-2 subset), RISC-V (RV32E / RV32I / RV64I subset), AVR, Xtensa.
"""
import os, re, subprocess

M32 = 0xFFFFFFFF
M64 = 0xFFFFFFFFFFFFFFFF


class Violation(Exception):
    def __init__(self, key, msg):
        Exception.__init__(self, msg)
        self.key = key
        self.msg = msg


# ------------------------------------------------------------------------------------------ memory + monitors

STATE_BASE = 0x20001000
STACK_TOP = 0x20008000       # entry stack pointer
STACK_LIMIT = 0x20007E00     # 512 bytes of stack may be used


class Mem:
    def __init__(self, state_bytes, keylen, check_align=True, base=STATE_BASE, stack_lo=STACK_LIMIT, store_top=STACK_TOP, load_top=None):
        self.b = {}
        self.klen = keylen
        self.base = base
        for i, v in enumerate(state_bytes):
            self.b[base + i] = v
        self.written = set()         # stack bytes the function has written
        self.stack_lo = stack_lo
        self.store_top = store_top   # stores must end at or below this address (exclusive)
        self.load_top = store_top if load_top is None else load_top
        self.check_align = check_align
        self.reads = 0
        self.writes = 0
        self.sp = None               # callable returning the current stack pointer (ABIs without a red zone)

    def _below_sp(self, addr, what):
        if self.sp is not None and addr < self.sp():
            raise Violation("access-below-stack-pointer", "%s at 0x%x below the stack pointer 0x%x: the ABI has no red zone, an interrupt or signal would overwrite it" % (what, addr, self.sp()))

    def load(self, addr, size):
        self.reads += 1
        base = self.base
        if self.check_align and size > 1 and addr % size:
            raise Violation("misaligned-access", "misaligned %d-byte load at 0x%x" % (size, addr))
        if base <= addr and addr + size <= base + 16 + self.klen:
            pass
        elif self.stack_lo <= addr and addr + size <= self.load_top:
            self._below_sp(addr, "load")
            for i in range(size):
                if addr + i not in self.written:
                    raise Violation("read-uninitialised-stack", "load of stack byte 0x%x that the function never wrote" % (addr + i))
        else:
            raise Violation("read-outside", "%d-byte load at 0x%x outside the state struct (0x%x..+%d) and the stack frame" % (size, addr, base, 16 + self.klen))
        v = 0
        for i in range(size):
            v |= self.b.get(addr + i, 0xEE) << (8 * i)
        return v

    def store(self, addr, size, val):
        self.writes += 1
        base = self.base
        if self.check_align and size > 1 and addr % size:
            raise Violation("misaligned-access", "misaligned %d-byte store at 0x%x" % (size, addr))
        if base <= addr and addr + size <= base + 16:
            pass
        elif self.stack_lo <= addr and addr + size <= self.store_top:
            self._below_sp(addr, "store")
            for i in range(size):
                self.written.add(addr + i)
        elif base + 16 <= addr < base + 16 + self.klen or base <= addr < base + 16:
            raise Violation("write-to-key", "store at 0x%x modifies the key words of the state struct" % addr)
        else:
            raise Violation("write-outside", "%d-byte store at 0x%x outside the four state words and the stack frame" % (size, addr))
        for i in range(size):
            self.b[addr + i] = (val >> (8 * i)) & 0xFF

    def state_words(self):
        return [sum(self.b[self.base + 4 * w + i] << (8 * i) for i in range(4)) for w in range(4)]

    def key_bytes(self):
        return bytes(self.b[self.base + 16 + i] for i in range(self.klen))


# ------------------------------------------------------------------------------------------ parsing

def preprocess(path, macros, repo_backend, stub_inc):
    cmd = ["cpp", "-undef", "-P", "-x", "assembler-with-cpp", "-I", repo_backend, "-I", stub_inc] + ["-D" + m for m in macros] + [path]
    p = subprocess.run(cmd, stdout=subprocess.PIPE, stderr=subprocess.PIPE)
    if p.returncode:
        raise RuntimeError("cpp failed for %s: %s" % (path, p.stderr.decode()[-400:]))
    return p.stdout.decode()


def selected_backends(macros, repo_backend):
    """Which TINYJAMBU_BACKEND_* macros does backend-select.h define under this macro set?"""
    p = subprocess.run(["cpp", "-undef", "-dM", "-x", "c"] + ["-D" + m for m in macros] + [os.path.join(repo_backend, "tinyjambu-backend-select.h")],
                       stdout=subprocess.PIPE, stderr=subprocess.PIPE)
    return sorted(set(re.findall(r"#define (TINYJAMBU_BACKEND_\w+)", p.stdout.decode())) - {"TINYJAMBU_BACKEND_SELECT_H"})


def parse_asm(text):
    """-> (instrs [(mnemonic, [operands], lineno)], labels {name: index}, numeric {n: [indices]}, globals [names])."""
    instrs, labels, numeric, globs = [], {}, {}, []
    for ln, raw in enumerate(text.splitlines(), 1):
        line = raw.split("//")[0].strip()
        line = re.sub(r"/\*.*?\*/", "", line).strip()
        if not line or line.startswith("#"):
            continue
        while True:
            m = re.match(r"^([.\w$]+):\s*(.*)$", line)
            if not m:
                break
            name, line = m.group(1), m.group(2).strip()
            if name.isdigit():
                numeric.setdefault(name, []).append(len(instrs))
            else:
                labels[name] = len(instrs)
        if not line:
            continue
        if line.startswith("."):
            d = line.split()
            if d[0] in (".global", ".globl") and len(d) > 1:
                globs.append(d[1])
            continue
        parts = line.split(None, 1)
        mn = parts[0].lower()
        ops = []
        if len(parts) > 1:
            # split operands on commas that are not inside [] or {}
            depth, cur = 0, ""
            for ch in parts[1]:
                if ch in "[{":
                    depth += 1
                if ch in "]}":
                    depth -= 1
                if ch == "," and depth == 0:
                    ops.append(cur.strip()); cur = ""
                else:
                    cur += ch
            if cur.strip():
                ops.append(cur.strip())
        instrs.append((mn, ops, ln))
    return instrs, labels, numeric, globs


def resolve(label, idx, labels, numeric):
    m = re.match(r"^(\d+)([bf])$", label)
    if m:
        cands = numeric.get(m.group(1), [])
        if m.group(2) == "b":
            c = [i for i in cands if i <= idx]
            if not c:
                raise Violation("bad-label", "no backward label %s" % label)
            return max(c)
        c = [i for i in cands if i > idx]
        if not c:
            raise Violation("bad-label", "no forward label %s" % label)
        return min(c)
    if label not in labels:
        raise Violation("bad-label", "undefined label %s" % label)
    return labels[label]


def imm(s):
    s = s.strip().lstrip("#")
    return int(s, 0)


class Program:
    """A decoded function: list of closures f(cpu) -> next index or None."""
    RET = -1

    def __init__(self, family, text, func, **kw):
        self.family = family
        self.instrs, self.labels, self.numeric, self.globals = parse_asm(text)
        if func not in self.labels:
            raise Violation("missing-function", "function %s not defined in the preprocessed file" % func)
        self.entry = self.labels[func]
        self.kw = kw
        self.ops = [None] * len(self.instrs)
        dec = {"arm": decode_arm, "riscv": decode_riscv, "avr": decode_avr, "xtensa": decode_xtensa}[family]
        self.mnemonics = set()
        for i, (mn, ops, ln) in enumerate(self.instrs):
            self.mnemonics.add(mn)
            self.ops[i] = dec(self, i, mn, ops, ln)

    def run(self, cpu, max_steps=200000):
        ops = self.ops
        pc = self.entry
        n = len(ops)
        steps = 0
        trace = 0
        while True:
            if pc >= n:
                raise Violation("fall-through", "execution ran past the last instruction of the file")
            nxt = ops[pc](cpu)
            steps += 1
            trace = (trace * 1000003 + pc) & M64
            if nxt is None:
                pc += 1
            elif nxt == Program.RET:
                break
            else:
                pc = nxt
            if steps > max_steps:
                raise Violation("step-budget", "no return after %d instructions" % max_steps)
        cpu.steps = steps
        cpu.trace = trace
        return steps


# ------------------------------------------------------------------------------------------ ARM

ARM_REG = {("r%d" % i): i for i in range(16)}
ARM_REG.update({"ip": 12, "sp": 13, "lr": 14, "pc": 15, "fp": 11, "sl": 10, "sb": 9})
RET_ADDR = 0x0800BEE0          # caller's return address (Thumb bit added where appropriate)


class ArmCpu:
    def __init__(self, mem, thumb):
        self.r = [0] * 16
        self.mem = mem
        self.z = 0
        self.n = 0
        self.thumb = thumb


def decode_arm(prog, idx, mn, ops, ln):
    thumb1 = prog.kw.get("thumb1", False)
    R = ARM_REG

    def reg(s):
        s = s.strip().lower()
        if s not in R:
            raise Violation("unknown-operand", "line %d: not a register: %s" % (ln, s))
        return R[s]

    def lowcheck(*regs):
        if thumb1:
            for x in regs:
                if x > 7:
                    raise Violation("not-encodable", "line %d: %s uses a high register in Thumb-1 code" % (ln, mn))

    setflags = False
    base = mn
    if mn.endswith(".w") or mn.endswith(".n"):
        base = mn[:-2]
    if base in ("eors", "ands", "lsrs", "lsls", "subs", "movs", "orrs", "adds"):
        setflags = True
        base = base[:-1]
    if thumb1 and base in ("eor", "and", "lsr", "lsl", "sub") and not setflags:
        raise Violation("not-encodable", "line %d: %s without flag setting does not exist in Thumb-1" % (ln, mn))

    def shifted(opl):
        """opl: ['rm'] or ['rm', 'lsr #15'] -> function cpu -> value"""
        rm = reg(opl[0])
        if len(opl) == 1:
            return lambda c: c.r[rm]
        m = re.match(r"^(lsl|lsr|ror|asr)\s+#?(\d+)$", opl[1].strip().lower())
        if not m:
            raise Violation("unknown-operand", "line %d: shift %s" % (ln, opl[1]))
        k, sh = m.group(1), int(m.group(2))
        if thumb1:
            raise Violation("not-encodable", "line %d: shifted operand in Thumb-1 code" % ln)
        if k == "lsl":
            if not 0 <= sh <= 31:
                raise Violation("bad-shift", "line %d: lsl #%d" % (ln, sh))
            return lambda c: (c.r[rm] << sh) & M32
        if k == "lsr":
            if not 1 <= sh <= 32:
                raise Violation("bad-shift", "line %d: lsr #%d" % (ln, sh))
            return lambda c: (c.r[rm] >> sh) if sh < 32 else 0
        if k == "ror":
            return lambda c: ((c.r[rm] >> sh) | (c.r[rm] << (32 - sh))) & M32
        raise Violation("unknown-operand", "line %d: shift kind %s" % (ln, k))

    if base in ("eor", "and", "orr"):
        fn = {"eor": lambda a, b: a ^ b, "and": lambda a, b: a & b, "orr": lambda a, b: a | b}[base]
        rd = reg(ops[0])
        if len(ops) == 2:
            rn, src = rd, shifted(ops[1:])
            lowcheck(rd, reg(ops[1]))
        else:
            rn = reg(ops[1])
            src = shifted(ops[2:])
            if thumb1:
                raise Violation("not-encodable", "line %d: three-operand %s in Thumb-1 code" % (ln, mn))

        def f(c):
            v = fn(c.r[rn], src(c)) & M32
            c.r[rd] = v
            if setflags:
                c.z = 1 if v == 0 else 0
                c.n = v >> 31
        return f
    if base in ("lsr", "lsl"):
        rd = reg(ops[0])
        if len(ops) == 3:
            rm, sh = reg(ops[1]), imm(ops[2])
        else:
            rm, sh = rd, imm(ops[1])
        lowcheck(rd, rm)
        if (base == "lsl" and not 0 <= sh <= 31) or (base == "lsr" and not 1 <= sh <= 32):
            raise Violation("bad-shift", "line %d: %s #%d" % (ln, mn, sh))
        left = base == "lsl"

        def f(c):
            v = ((c.r[rm] << sh) & M32) if left else ((c.r[rm] >> sh) if sh < 32 else 0)
            c.r[rd] = v
            if setflags:
                c.z = 1 if v == 0 else 0
                c.n = v >> 31
        return f
    if base == "mov":
        rd, rm = reg(ops[0]), None
        if ops[1].strip().startswith("#"):
            v0 = imm(ops[1])

            def f(c):
                c.r[rd] = v0 & M32
                if setflags:
                    c.z = 1 if v0 == 0 else 0
            return f
        rm = reg(ops[1])

        def f(c):
            c.r[rd] = c.r[rm]
            if setflags:
                c.z = 1 if c.r[rd] == 0 else 0
        return f
    if base in ("sub", "add"):
        rd = reg(ops[0])
        if len(ops) == 3:
            rn, v0 = reg(ops[1]), ops[2]
        else:
            rn, v0 = rd, ops[1]
        if not v0.strip().startswith("#"):
            raise Violation("unknown-operand", "line %d: %s with register operand not supported" % (ln, mn))
        k = imm(v0) if base == "add" else -imm(v0)
        if rd == 13 or rn == 13:
            lowcheck()
        else:
            lowcheck(rd, rn)

        def f(c):
            v = (c.r[rn] + k) & M32
            c.r[rd] = v
            if setflags:
                c.z = 1 if v == 0 else 0
                c.n = v >> 31
        return f
    if base in ("ldr", "str"):
        rt = reg(ops[0])
        m = re.match(r"^\[\s*(\w+)\s*(?:,\s*#?(-?\w+)\s*)?\]$", ops[1].strip())
        if not m or len(ops) != 2:
            raise Violation("unknown-operand", "line %d: addressing mode %s" % (ln, ",".join(ops[1:])))
        rb, off = reg(m.group(1)), int(m.group(2) or "0", 0)
        if rb != 13:
            lowcheck(rt, rb)
        if thumb1 and (off % 4 or not 0 <= off <= 124) and rb != 13:
            raise Violation("not-encodable", "line %d: offset %d in Thumb-1 ldr/str" % (ln, off))
        if base == "ldr":
            def f(c):
                c.r[rt] = c.mem.load((c.r[rb] + off) & M32, 4)
        else:
            def f(c):
                c.mem.store((c.r[rb] + off) & M32, 4, c.r[rt])
        return f
    if base in ("push", "pop"):
        lst = ops[0].strip()
        if not (lst.startswith("{") and lst.endswith("}")):
            raise Violation("unknown-operand", "line %d: register list %s" % (ln, lst))
        regs = []
        for part in lst[1:-1].split(","):
            part = part.strip()
            if "-" in part:
                a, b = part.split("-")
                regs += list(range(reg(a), reg(b) + 1))
            else:
                regs.append(reg(part))
        regs = sorted(regs)
        if thumb1:
            for x in regs:
                if x > 7 and not ((base == "push" and x == 14) or (base == "pop" and x == 15)):
                    raise Violation("not-encodable", "line %d: %s of r%d in Thumb-1 code" % (ln, base, x))
        if base == "push":
            def f(c):
                sp = (c.r[13] - 4 * len(regs)) & M32
                c.r[13] = sp
                for i, x in enumerate(regs):
                    c.mem.store(sp + 4 * i, 4, c.r[x])
            return f

        def f(c):
            sp = c.r[13]
            ret = None
            for i, x in enumerate(regs):
                v = c.mem.load(sp + 4 * i, 4)
                if x == 15:
                    ret = v
                else:
                    c.r[x] = v
            c.r[13] = (sp + 4 * len(regs)) & M32
            if ret is not None:
                c.ret_to = ret
                return Program.RET
        return f
    if base == "bx":
        rm = reg(ops[0])

        def f(c):
            c.ret_to = c.r[rm]
            return Program.RET
        return f
    if base in ("bne", "beq", "b"):
        tgt = resolve(ops[0], idx, prog.labels, prog.numeric)
        if base == "b":
            return lambda c: tgt
        if base == "bne":
            return lambda c: tgt if not c.z else None
        return lambda c: tgt if c.z else None
    raise Violation("unknown-mnemonic", "line %d: %s %s" % (ln, mn, ", ".join(ops)))


def call_arm(prog, state_bytes, keylen, rounds, thumb, rng):
    mem = Mem(state_bytes, keylen)
    c = ArmCpu(mem, thumb)
    mem.sp = lambda: c.r[13]
    for i in range(16):
        c.r[i] = rng.getrandbits(32)
    c.r[0] = STATE_BASE
    c.r[1] = rounds
    c.r[13] = STACK_TOP
    lr = RET_ADDR | (1 if thumb else 0)
    c.r[14] = lr
    saved = list(c.r)
    c.ret_to = None
    prog.run(c)
    if c.ret_to != lr:
        raise Violation("abi-return-address", "returned to 0x%x instead of the caller's 0x%x" % (c.ret_to or 0, lr))
    for i in (4, 5, 6, 7, 8, 9, 10, 11):
        if c.r[i] != saved[i]:
            raise Violation("abi-callee-saved", "callee-saved register r%d not restored (0x%08x -> 0x%08x)" % (i, saved[i], c.r[i]))
    if c.r[13] != STACK_TOP:
        raise Violation("abi-stack-pointer", "sp is 0x%x at return, was 0x%x at entry" % (c.r[13], STACK_TOP))
    return c


# ------------------------------------------------------------------------------------------ RISC-V

RV_NAMES = ["zero", "ra", "sp", "gp", "tp", "t0", "t1", "t2", "s0", "s1", "a0", "a1", "a2", "a3", "a4", "a5", "a6", "a7",
            "s2", "s3", "s4", "s5", "s6", "s7", "s8", "s9", "s10", "s11", "t3", "t4", "t5", "t6"]
RV_REG = {n: i for i, n in enumerate(RV_NAMES)}
RV_REG.update({("x%d" % i): i for i in range(32)})
RV_REG["fp"] = 8


class RvCpu:
    def __init__(self, mem, xlen):
        self.x = [0] * 32
        self.mem = mem
        self.xlen = xlen


def sext32(v):
    v &= M32
    return v | (M64 ^ M32) if v & 0x80000000 else v


def decode_riscv(prog, idx, mn, ops, ln):
    xlen = prog.kw["xlen"]
    rve = prog.kw.get("rve", False)
    MASK = M64 if xlen == 64 else M32

    def reg(s):
        s = s.strip().lower()
        if s not in RV_REG:
            raise Violation("unknown-operand", "line %d: not a register: %s" % (ln, s))
        r = RV_REG[s]
        if rve and r > 15:
            raise Violation("not-encodable", "line %d: register %s does not exist in RV32E" % (ln, s))
        return r

    def memop(s):
        m = re.match(r"^(-?\w*)\s*\(\s*(\w+)\s*\)$", s.strip())
        if not m:
            raise Violation("unknown-operand", "line %d: addressing mode %s" % (ln, s))
        off = int(m.group(1), 0) if m.group(1) else 0
        if not -2048 <= off <= 2047:
            raise Violation("not-encodable", "line %d: offset %d" % (ln, off))
        return off, reg(m.group(2))

    def wr(c, rd, v):
        if rd:
            c.x[rd] = v & MASK

    if mn in ("xor", "and", "or", "add", "sub"):
        rd, a, b = reg(ops[0]), reg(ops[1]), reg(ops[2])
        fn = {"xor": lambda p, q: p ^ q, "and": lambda p, q: p & q, "or": lambda p, q: p | q, "add": lambda p, q: p + q, "sub": lambda p, q: p - q}[mn]
        return lambda c: wr(c, rd, fn(c.x[a], c.x[b]))
    if mn in ("slli", "srli"):
        rd, a, sh = reg(ops[0]), reg(ops[1]), imm(ops[2])
        if not 0 <= sh < xlen:
            raise Violation("bad-shift", "line %d: %s %d" % (ln, mn, sh))
        if mn == "slli":
            return lambda c: wr(c, rd, c.x[a] << sh)
        return lambda c: wr(c, rd, c.x[a] >> sh)
    if mn in ("slliw", "srliw"):
        if xlen != 64:
            raise Violation("not-encodable", "line %d: %s on RV32" % (ln, mn))
        rd, a, sh = reg(ops[0]), reg(ops[1]), imm(ops[2])
        if not 0 <= sh < 32:
            raise Violation("bad-shift", "line %d: %s %d" % (ln, mn, sh))
        if mn == "slliw":
            return lambda c: wr(c, rd, sext32((c.x[a] & M32) << sh))
        return lambda c: wr(c, rd, sext32((c.x[a] & M32) >> sh))
    if mn == "addi":
        rd, a, k = reg(ops[0]), reg(ops[1]), imm(ops[2])
        if not -2048 <= k <= 2047:
            raise Violation("not-encodable", "line %d: addi immediate %d" % (ln, k))
        return lambda c: wr(c, rd, c.x[a] + k)
    if mn in ("mv",):
        rd, a = reg(ops[0]), reg(ops[1])
        return lambda c: wr(c, rd, c.x[a])
    if mn in ("li",):
        rd, k = reg(ops[0]), imm(ops[1])
        return lambda c: wr(c, rd, k)
    if mn in ("lw", "ld", "lwu"):
        if mn in ("ld", "lwu") and xlen != 64:
            raise Violation("not-encodable", "line %d: %s on RV32" % (ln, mn))
        rd = reg(ops[0])
        off, rb = memop(ops[1])
        if mn == "lw":
            return lambda c: wr(c, rd, sext32(c.mem.load((c.x[rb] + off) & MASK, 4)) if xlen == 64 else c.mem.load((c.x[rb] + off) & MASK, 4))
        if mn == "lwu":
            return lambda c: wr(c, rd, c.mem.load((c.x[rb] + off) & MASK, 4))
        return lambda c: wr(c, rd, c.mem.load((c.x[rb] + off) & MASK, 8))
    if mn in ("sw", "sd"):
        if mn == "sd" and xlen != 64:
            raise Violation("not-encodable", "line %d: sd on RV32" % ln)
        rs = reg(ops[0])
        off, rb = memop(ops[1])
        size = 4 if mn == "sw" else 8
        return lambda c: c.mem.store((c.x[rb] + off) & MASK, size, c.x[rs] & (M32 if size == 4 else M64))
    if mn in ("bne", "beq"):
        a, b = reg(ops[0]), reg(ops[1])
        tgt = resolve(ops[2], idx, prog.labels, prog.numeric)
        if mn == "bne":
            return lambda c: tgt if c.x[a] != c.x[b] else None
        return lambda c: tgt if c.x[a] == c.x[b] else None
    if mn in ("bnez", "beqz"):
        a = reg(ops[0])
        tgt = resolve(ops[1], idx, prog.labels, prog.numeric)
        if mn == "bnez":
            return lambda c: tgt if c.x[a] != 0 else None
        return lambda c: tgt if c.x[a] == 0 else None
    if mn == "j":
        tgt = resolve(ops[0], idx, prog.labels, prog.numeric)
        return lambda c: tgt
    if mn == "ret" or (mn == "jr" and ops and ops[0].strip() == "ra"):
        def f(c):
            c.ret_to = c.x[1]
            return Program.RET
        return f
    raise Violation("unknown-mnemonic", "line %d: %s %s" % (ln, mn, ", ".join(ops)))


def call_riscv(prog, state_bytes, keylen, rounds, rng):
    xlen = prog.kw["xlen"]
    rve = prog.kw.get("rve", False)
    mem = Mem(state_bytes, keylen)
    c = RvCpu(mem, xlen)
    mem.sp = lambda: c.x[2]
    MASK = M64 if xlen == 64 else M32
    for i in range(1, 32):
        c.x[i] = rng.getrandbits(xlen)
    c.x[10] = STATE_BASE
    c.x[11] = rounds            # unsigned int, zero/sign extension coincide for small counts
    c.x[2] = STACK_TOP
    c.x[1] = RET_ADDR
    saved = list(c.x)
    c.ret_to = None
    prog.run(c)
    if c.ret_to != RET_ADDR:
        raise Violation("abi-return-address", "returned to 0x%x instead of ra 0x%x" % (c.ret_to or 0, RET_ADDR))
    callee = [8, 9] + ([] if rve else list(range(18, 28)))
    for i in callee + [3, 4]:       # s-registers, and gp / tp which a leaf function must not touch
        if c.x[i] != saved[i]:
            raise Violation("abi-callee-saved", "register %s not restored (0x%x -> 0x%x)" % (RV_NAMES[i], saved[i], c.x[i]))
    if c.x[2] != STACK_TOP:
        raise Violation("abi-stack-pointer", "sp is 0x%x at return, was 0x%x at entry" % (c.x[2], STACK_TOP))
    if rve:
        for i in range(16, 32):
            if c.x[i] != saved[i]:
                raise Violation("not-encodable", "RV32E code changed x%d" % i)
    return c


# ------------------------------------------------------------------------------------------ AVR

class AvrCpu:
    def __init__(self, mem):
        self.r = [0] * 32
        self.mem = mem
        self.c = 0
        self.z = 0
        self.sp = 0


def decode_avr(prog, idx, mn, ops, ln):
    def reg(s, lo=0, hi=31):
        s = s.strip().lower()
        m = re.match(r"^r(\d+)$", s)
        if not m or not lo <= int(m.group(1)) <= hi:
            raise Violation("unknown-operand", "line %d: not a register (r%d..r%d): %s" % (ln, lo, hi, s))
        return int(m.group(1))

    def ptr(s):
        """'Z', 'Z+5', 'Y+2', 'X' -> (low register index, displacement)"""
        m = re.match(r"^([xyz])\s*(?:\+\s*(\d+))?$", s.strip().lower())
        if not m:
            raise Violation("unknown-operand", "line %d: pointer operand %s" % (ln, s))
        base = {"x": 26, "y": 28, "z": 30}[m.group(1)]
        q = int(m.group(2) or 0)
        if m.group(2) is not None and (base == 26 or not 0 <= q <= 63):
            raise Violation("not-encodable", "line %d: displacement %s" % (ln, s))
        return base, q

    if mn in ("push", "pop"):
        r = reg(ops[0])
        if mn == "push":
            def f(c):
                c.mem.store(c.sp, 1, c.r[r])
                c.sp -= 1
            return f

        def f(c):
            c.sp += 1
            c.r[r] = c.mem.load(c.sp, 1)
        return f
    if mn == "movw":
        d, s = reg(ops[0]), reg(ops[1])
        if d % 2 or s % 2:
            raise Violation("not-encodable", "line %d: movw needs even registers" % ln)

        def f(c):
            c.r[d] = c.r[s]
            c.r[d + 1] = c.r[s + 1]
        return f
    if mn == "mov":
        d, s = reg(ops[0]), reg(ops[1])

        def f(c):
            c.r[d] = c.r[s]
        return f
    if mn in ("ld", "ldd"):
        d = reg(ops[0])
        b, q = ptr(ops[1])
        if ("+" in ops[1]) != (mn == "ldd"):
            raise Violation("not-encodable", "line %d: %s %s (ld takes a bare pointer, ldd a displacement)" % (ln, mn, ops[1]))

        def f(c):
            c.r[d] = c.mem.load((c.r[b] | (c.r[b + 1] << 8)) + q, 1)
        return f
    if mn in ("st", "std"):
        b, q = ptr(ops[0])
        s = reg(ops[1])
        if ("+" in ops[0]) != (mn == "std"):
            raise Violation("not-encodable", "line %d: %s %s (st takes a bare pointer, std a displacement)" % (ln, mn, ops[0]))

        def f(c):
            c.mem.store((c.r[b] | (c.r[b + 1] << 8)) + q, 1, c.r[s])
        return f
    if mn == "lsl":
        d = reg(ops[0])

        def f(c):
            v = c.r[d] << 1
            c.c = v >> 8
            c.r[d] = v & 0xFF
            c.z = 1 if c.r[d] == 0 else 0
        return f
    if mn == "rol":
        d = reg(ops[0])

        def f(c):
            v = (c.r[d] << 1) | c.c
            c.c = v >> 8
            c.r[d] = v & 0xFF
            c.z = 1 if c.r[d] == 0 else 0
        return f
    if mn == "lsr":
        d = reg(ops[0])

        def f(c):
            v = c.r[d]
            c.c = v & 1
            c.r[d] = v >> 1
            c.z = 1 if c.r[d] == 0 else 0
        return f
    if mn == "ror":
        d = reg(ops[0])

        def f(c):
            v = c.r[d]
            c.r[d] = (v >> 1) | (c.c << 7)
            c.c = v & 1
            c.z = 1 if c.r[d] == 0 else 0
        return f
    if mn in ("and", "eor", "or"):
        d, s = reg(ops[0]), reg(ops[1])
        fn = {"and": lambda a, b: a & b, "eor": lambda a, b: a ^ b, "or": lambda a, b: a | b}[mn]

        def f(c):            # logical operations leave the carry flag alone
            c.r[d] = fn(c.r[d], c.r[s])
            c.z = 1 if c.r[d] == 0 else 0
        return f
    if mn == "com":
        d = reg(ops[0])

        def f(c):
            c.r[d] ^= 0xFF
            c.c = 1
            c.z = 1 if c.r[d] == 0 else 0
        return f
    if mn in ("dec", "inc"):
        d = reg(ops[0])
        k = -1 if mn == "dec" else 1

        def f(c):            # dec/inc do not touch the carry flag
            c.r[d] = (c.r[d] + k) & 0xFF
            c.z = 1 if c.r[d] == 0 else 0
        return f
    if mn in ("ldi",):
        d, k = reg(ops[0], 16, 31), imm(ops[1])

        def f(c):
            c.r[d] = k & 0xFF
        return f
    if mn in ("breq", "brne", "rjmp", "jmp"):
        tgt = resolve(ops[0], idx, prog.labels, prog.numeric)
        if mn == "breq":
            return lambda c: tgt if c.z else None
        if mn == "brne":
            return lambda c: tgt if not c.z else None
        return lambda c: tgt
    if mn == "ret":
        def f(c):
            hi = c.mem.load(c.sp + 1, 1)
            lo = c.mem.load(c.sp + 2, 1)
            c.sp += 2
            c.ret_to = (hi << 8) | lo
            return Program.RET
        return f
    raise Violation("unknown-mnemonic", "line %d: %s %s" % (ln, mn, ", ".join(ops)))


AVR_BASE = 0x0300
AVR_SP0 = 0x08FF


def call_avr(prog, state_bytes, keylen, rounds, rng):
    # AVR: SP points at the first free byte; push stores at SP then decrements.  `call` pushes the return address
    # (low byte first), so after the call it sits at SP+1 (high) and SP+2 (low).
    ret = 0x1234
    sp_entry = AVR_SP0 - 2
    mem = Mem(state_bytes, keylen, check_align=False, base=AVR_BASE, stack_lo=AVR_SP0 - 300, store_top=sp_entry + 1, load_top=AVR_SP0 + 1)
    mem.b[AVR_SP0] = ret & 0xFF
    mem.b[AVR_SP0 - 1] = ret >> 8
    mem.written.update([AVR_SP0, AVR_SP0 - 1])
    c = AvrCpu(mem)
    for i in range(32):
        c.r[i] = rng.getrandbits(8)
    c.r[1] = 0                       # avr-gcc: r1 is the zero register
    c.r[24] = AVR_BASE & 0xFF
    c.r[25] = (AVR_BASE >> 8) & 0xFF
    c.r[22] = rounds & 0xFF
    c.r[23] = (rounds >> 8) & 0xFF
    c.c = rng.getrandbits(1)
    c.z = rng.getrandbits(1)
    c.sp = sp_entry
    saved = list(c.r)
    c.ret_to = None
    prog.run(c, max_steps=400000)
    if c.ret_to != ret:
        raise Violation("abi-return-address", "returned to 0x%x instead of 0x%x" % (c.ret_to or 0, ret))
    if c.sp != AVR_SP0:
        raise Violation("abi-stack-pointer", "SP is 0x%x after ret, expected 0x%x" % (c.sp, AVR_SP0))
    for i in list(range(2, 18)) + [28, 29]:
        if c.r[i] != saved[i]:
            raise Violation("abi-callee-saved", "call-saved register r%d not restored (0x%02x -> 0x%02x)" % (i, saved[i], c.r[i]))
    if c.r[1] != 0:
        raise Violation("abi-zero-register", "r1 is 0x%02x at return (must be zero)" % c.r[1])
    return c


# ------------------------------------------------------------------------------------------ Xtensa

class XtCpu:
    def __init__(self, mem):
        self.a = [0] * 16
        self.mem = mem
        self.sar = None
        self.entered = 0
        self.windowed = False


def decode_xtensa(prog, idx, mn, ops, ln):
    windowed = prog.kw.get("windowed", False)

    def reg(s):
        s = s.strip().lower()
        if s == "sp":
            return 1
        m = re.match(r"^a(\d+)$", s)
        if not m or int(m.group(1)) > 15:
            raise Violation("unknown-operand", "line %d: not a register: %s" % (ln, s))
        return int(m.group(1))

    if mn == "entry":
        r, k = reg(ops[0]), imm(ops[1])
        if not windowed:
            raise Violation("abi-entry-in-call0", "line %d: entry executed under the call0 ABI" % ln)
        if r != 1 or k % 8 or not 16 <= k <= 32760:
            raise Violation("not-encodable", "line %d: entry %s" % (ln, ", ".join(ops)))

        def f(c):
            if c.entered:
                raise Violation("abi-entry-twice", "entry executed twice")
            c.entered = 1
            c.a[1] = (c.a[1] - k) & M32      # callee's stack pointer in the rotated window
        return f
    if mn in ("retw.n", "retw"):
        if not windowed:
            raise Violation("abi-retw-in-call0", "line %d: retw executed under the call0 ABI" % ln)

        def f(c):
            if not c.entered:
                raise Violation("abi-retw-without-entry", "retw without entry")
            c.ret_to = c.a[0]
            c.returned_windowed = True
            return Program.RET
        return f
    if mn in ("ret.n", "ret"):
        if windowed:
            raise Violation("abi-ret-in-windowed", "line %d: ret executed under the windowed ABI" % ln)

        def f(c):
            c.ret_to = c.a[0]
            return Program.RET
        return f
    if mn in ("l32i.n", "l32i"):
        t, s, k = reg(ops[0]), reg(ops[1]), imm(ops[2])
        if k % 4 or not 0 <= k <= (60 if mn.endswith(".n") else 1020):
            raise Violation("not-encodable", "line %d: %s offset %d" % (ln, mn, k))
        return lambda c: c.a.__setitem__(t, c.mem.load((c.a[s] + k) & M32, 4))
    if mn in ("s32i.n", "s32i"):
        t, s, k = reg(ops[0]), reg(ops[1]), imm(ops[2])
        if k % 4 or not 0 <= k <= (60 if mn.endswith(".n") else 1020):
            raise Violation("not-encodable", "line %d: %s offset %d" % (ln, mn, k))
        return lambda c: c.mem.store((c.a[s] + k) & M32, 4, c.a[t])
    if mn == "ssai":
        k = imm(ops[0])
        if not 0 <= k <= 31:
            raise Violation("bad-shift", "line %d: ssai %d" % (ln, k))
        return lambda c: setattr(c, "sar", k)
    if mn == "src":
        r, s, t = reg(ops[0]), reg(ops[1]), reg(ops[2])

        def f(c):
            if c.sar is None:
                raise Violation("uninitialised-sar", "src executed before any ssai")
            c.a[r] = (((c.a[s] << 32) | c.a[t]) >> c.sar) & M32
        return f
    if mn in ("xor", "and", "or"):
        r, s, t = reg(ops[0]), reg(ops[1]), reg(ops[2])
        fn = {"xor": lambda p, q: p ^ q, "and": lambda p, q: p & q, "or": lambda p, q: p | q}[mn]
        return lambda c: c.a.__setitem__(r, fn(c.a[s], c.a[t]))
    if mn in ("addi", "addi.n"):
        r, s, k = reg(ops[0]), reg(ops[1]), imm(ops[2])
        if not -128 <= k <= 127:
            raise Violation("not-encodable", "line %d: addi immediate %d" % (ln, k))
        return lambda c: c.a.__setitem__(r, (c.a[s] + k) & M32)
    if mn in ("mov.n", "mov"):
        r, s = reg(ops[0]), reg(ops[1])
        return lambda c: c.a.__setitem__(r, c.a[s])
    if mn in ("bnei", "beqi"):
        s, k = reg(ops[0]), imm(ops[1])
        # b4const has no 0, but assemblers relax "beqi/bnei ax, 0" into beqz/bnez: accepted
        if k not in (0, -1, 1, 2, 3, 4, 5, 6, 7, 8, 10, 12, 16, 32, 64, 128, 256):
            raise Violation("not-encodable", "line %d: %s constant %d" % (ln, mn, k))
        tgt = resolve(ops[2], idx, prog.labels, prog.numeric)
        if mn == "bnei":
            return lambda c: tgt if c.a[s] != (k & M32) else None
        return lambda c: tgt if c.a[s] == (k & M32) else None
    if mn in ("bnez", "beqz", "bnez.n", "beqz.n"):
        s = reg(ops[0])
        tgt = resolve(ops[1], idx, prog.labels, prog.numeric)
        if mn.startswith("bnez"):
            return lambda c: tgt if c.a[s] != 0 else None
        return lambda c: tgt if c.a[s] == 0 else None
    if mn == "j":
        tgt = resolve(ops[0], idx, prog.labels, prog.numeric)
        return lambda c: tgt
    raise Violation("unknown-mnemonic", "line %d: %s %s" % (ln, mn, ", ".join(ops)))


def call_xtensa(prog, state_bytes, keylen, rounds, rng):
    windowed = prog.kw.get("windowed", False)
    mem = Mem(state_bytes, keylen)
    c = XtCpu(mem)
    mem.sp = lambda: c.a[1]
    c.windowed = windowed
    for i in range(16):
        c.a[i] = rng.getrandbits(32)
    c.a[0] = RET_ADDR
    c.a[1] = STACK_TOP
    c.a[2] = STATE_BASE
    c.a[3] = rounds
    saved = list(c.a)
    c.ret_to = None
    c.returned_windowed = False
    prog.run(c)
    if c.ret_to != RET_ADDR:
        raise Violation("abi-return-address", "returned to 0x%x instead of a0 0x%x" % (c.ret_to or 0, RET_ADDR))
    if windowed:
        if not c.entered or not c.returned_windowed:
            raise Violation("abi-window", "windowed ABI needs entry ... retw")
    else:
        for i in (12, 13, 14, 15):
            if c.a[i] != saved[i]:
                raise Violation("abi-callee-saved", "callee-saved register a%d not restored (0x%08x -> 0x%08x)" % (i, saved[i], c.a[i]))
        if c.a[1] != STACK_TOP:
            raise Violation("abi-stack-pointer", "sp (a1) is 0x%x at return, was 0x%x at entry" % (c.a[1], STACK_TOP))
    return c


CALLERS = {"arm": call_arm, "riscv": call_riscv, "avr": call_avr, "xtensa": call_xtensa}
