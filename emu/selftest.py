#!/usr/bin/env python3
"""Unit self-tests of the interpreters: each mnemonic against values computed by hand from the ISA manuals, and the
ABI monitors against small functions that break each rule.  Run by bin/setup and at the start of check C05; a failure
means the instrument is broken (exit 2 = inconclusive), never a violation."""
import os, random, sys
sys.path.insert(0, os.path.dirname(os.path.abspath(__file__)))
import emu
from emu import Program, Violation, Mem

fails = []
ntests = 0


def state(words=(0x11111111, 0x22222222, 0x33333333, 0x44444444), key=bytes(range(16))):
    return b"".join(w.to_bytes(4, "little") for w in words) + key


def expect(name, cond):
    global ntests
    ntests += 1
    if not cond:
        fails.append(name)


def run(family, text, func="f", rounds=3, kw=None, st=None):
    kw = kw or {}
    prog = Program(family, text, func, **kw)
    rnd = random.Random(7)
    st = st or state()
    if family == "arm":
        return emu.call_arm(prog, st, len(st) - 16, rounds, kw.get("thumb", False), rnd)
    return emu.CALLERS[family](prog, st, len(st) - 16, rounds, rnd)


def violates(family, text, key, **kw):
    try:
        run(family, text, **kw)
    except Violation as v:
        return v.key == key
    return False


# ------------------------------------------------------------------ ARM
c = run("arm", """
f:
    push {r4, r5, lr}
    ldr r2, [r0, #0]
    ldr r3, [r0, #4]
    eor r4, r2, r3, lsr #15
    eor r4, r4, r3, lsl #17
    lsr r5, r3, #6
    and r5, r2
    eor r4, r5
    str r4, [r0, #8]
    lsl r5, r2, #31
    str r5, [r0, #12]
    pop {r4, r5, pc}
""")
a, b = 0x11111111, 0x22222222
expect("arm eor/shifts", c.mem.state_words()[2] == (a ^ (b >> 15) ^ ((b << 17) & 0xFFFFFFFF) ^ ((b >> 6) & a)))
expect("arm lsl 31", c.mem.state_words()[3] == 0x80000000)
c = run("arm", """
f:
    ldr r2, [r0]
.Lloop:
    lsrs r2, r2, #1
    subs r1, r1, #1
    bne .Lloop
    str r2, [r0, #0]
    bx lr
""", rounds=5)
expect("arm subs/bne loop", c.mem.state_words()[0] == 0x11111111 >> 5)
c = run("arm", """
f:
    push {r4, r5, r6, r7, lr}
    mov ip, r1
    ldr r4, [r0, #4]
    lsls r1, r4, #4
    eors r4, r1
    mov r1, ip
    str r4, [r0, #4]
    str r1, [r0, #0]
    pop {r4, r5, r6, r7, pc}
""", rounds=9, kw={"thumb": True, "thumb1": True})
expect("thumb1 mov ip / lsls / eors", c.mem.state_words()[1] == (0x22222222 ^ 0x22222220) and c.mem.state_words()[0] == 9)
expect("arm callee-saved", violates("arm", "f:\n mov r4, r1\n bx lr\n", "abi-callee-saved"))
expect("arm sp", violates("arm", "f:\n push {r4}\n bx lr\n", "abi-stack-pointer"))
expect("arm return", violates("arm", "f:\n mov lr, r1\n bx lr\n", "abi-return-address"))
expect("arm write key", violates("arm", "f:\n str r1, [r0, #16]\n bx lr\n", "write-to-key"))
expect("arm write outside", violates("arm", "f:\n str r1, [r0, #32]\n bx lr\n", "write-outside"))
expect("arm read outside", violates("arm", "f:\n ldr r1, [r0, #32]\n bx lr\n", "read-outside"))
expect("arm read below sp", violates("arm", "f:\n ldr r1, [sp, #-4]\n bx lr\n", "access-below-stack-pointer"))
expect("arm misaligned", violates("arm", "f:\n ldr r1, [r0, #2]\n bx lr\n", "misaligned-access"))
expect("arm unknown", violates("arm", "f:\n mul r1, r2, r3\n bx lr\n", "unknown-mnemonic"))
expect("arm fallthrough", violates("arm", "f:\n mov r1, r2\n", "fall-through"))
expect("arm endless", violates("arm", "f:\n.L:\n b .L\n", "step-budget"))
expect("thumb1 high reg", violates("arm", "f:\n eors r8, r1\n bx lr\n", "not-encodable", kw={"thumb": True, "thumb1": True}))
expect("thumb1 shifted operand", violates("arm", "f:\n eor r2, r2, r3, lsr #1\n bx lr\n", "not-encodable", kw={"thumb": True, "thumb1": True}))

# ------------------------------------------------------------------ RISC-V
c = run("riscv", """
f:
    addi sp, sp, -16
    sw s0, (sp)
    lw a2, (a0)
    lw a3, 4(a0)
    srli t0, a3, 15
    slli t1, a3, 17
    xor a2, a2, t0
    xor a2, a2, t1
    and s0, a2, a3
    sw a2, 8(a0)
    sw s0, 12(a0)
    lw s0, (sp)
    addi sp, sp, 16
    ret
""", kw={"xlen": 32})
expect("rv32 shifts", c.mem.state_words()[2] == (a ^ (b >> 15) ^ ((b << 17) & 0xFFFFFFFF)))
expect("rv32 and", c.mem.state_words()[3] == (c.mem.state_words()[2] & b))
c = run("riscv", """
f:
    lw a2, 12(a0)
    srliw t0, a2, 4
    slliw t1, a2, 1
    srli t2, a2, 4
    sw t0, (a0)
    sw t1, 4(a0)
    sw t2, 8(a0)
    ret
""", kw={"xlen": 64}, st=state((1, 2, 3, 0x84444444)))
w = c.mem.state_words()
expect("rv64 srliw", w[0] == 0x08444444)
expect("rv64 slliw", w[1] == 0x08888888)
expect("rv64 lw sign-extends, srli is 64-bit", w[2] == 0xF8444444)
c = run("riscv", "f:\n lw a2, (a0)\n.L1:\n slli a2, a2, 1\n addi a1, a1, -1\n bne a1, zero, .L1\n sw a2, (a0)\n ret\n", rounds=4, kw={"xlen": 32})
expect("rv loop", c.mem.state_words()[0] == (0x11111111 << 4) & 0xFFFFFFFF)
expect("rv store below sp", violates("riscv", "f:\n sw s0, -4(sp)\n lw s0, -4(sp)\n ret\n", "access-below-stack-pointer", kw={"xlen": 32}))
expect("arm store below sp", violates("arm", "f:\n str r4, [sp, #-4]\n ldr r4, [sp, #-4]\n bx lr\n", "access-below-stack-pointer"))
expect("rv callee-saved", violates("riscv", "f:\n addi s1, a1, 1\n ret\n", "abi-callee-saved", kw={"xlen": 32}))
expect("rv sp", violates("riscv", "f:\n addi sp, sp, -16\n ret\n", "abi-stack-pointer", kw={"xlen": 32}))
expect("rv32e x16", violates("riscv", "f:\n addi a6, a1, 1\n ret\n", "not-encodable", kw={"xlen": 32, "rve": True}))
expect("rv32 no srliw", violates("riscv", "f:\n srliw a2, a1, 1\n ret\n", "not-encodable", kw={"xlen": 32}))
expect("rv write outside", violates("riscv", "f:\n sw a1, 16(a0)\n ret\n", "write-to-key", kw={"xlen": 32}))
expect("rv64 sd misaligned", violates("riscv", "f:\n addi sp, sp, -4\n sd a1, (sp)\n addi sp, sp, 4\n ret\n", "misaligned-access", kw={"xlen": 64}))

# ------------------------------------------------------------------ AVR
c = run("avr", """
f:
    push r2
    movw r30, r24
    ld r18, Z
    ldd r19, Z+1
    ldd r20, Z+4
    mov r2, r18
    lsl r18
    rol r19
    eor r20, r18
    rol r19
    st Z, r18
    std Z+1, r19
    std Z+2, r20
    pop r2
    ret
""", st=state((0x0000C181, 0x000000FF, 0, 0)))
w = c.mem.state_words()
# r18=0x81 -> lsl -> 0x02 C=1 ; r19=0xC1 -> rol -> 0x83 C=1 ; eor keeps C ; rol r19 -> 0x07 C=1
expect("avr lsl/rol/eor carry", (w[0] & 0xFF) == 0x02 and ((w[0] >> 8) & 0xFF) == 0x07 and ((w[0] >> 16) & 0xFF) == (0xFF ^ 0x02))
c = run("avr", """
f:
    movw r30, r24
    ld r18, Z
    ldd r19, Z+1
    lsr r19
    ror r18
    st Z, r18
    std Z+1, r19
1:
    dec r22
    brne 1b
    std Z+2, r22
    ret
""", rounds=6, st=state((0x00000301, 0, 0, 0)))
w = c.mem.state_words()
expect("avr lsr/ror", (w[0] & 0xFFFF) == 0x0180)
expect("avr dec/brne", ((w[0] >> 16) & 0xFF) == 0)
expect("avr callee-saved", violates("avr", "f:\n mov r2, r22\n ret\n", "abi-callee-saved"))
expect("avr r1", violates("avr", "f:\n mov r1, r22\n ret\n", "abi-zero-register"))
expect("avr unbalanced stack", violates("avr", "f:\n push r2\n ret\n", "abi-return-address") or violates("avr", "f:\n push r2\n ret\n", "abi-stack-pointer"))
expect("avr write outside", violates("avr", "f:\n movw r30, r24\n std Z+16, r22\n ret\n", "write-to-key"))
expect("avr numeric labels", not violates("avr", "f:\n1:\n dec r22\n breq 2f\n rjmp 1b\n2:\n ret\n", "bad-label", rounds=3))

# ------------------------------------------------------------------ Xtensa
xt = """
f:
    addi sp, sp, -32
    s32i.n a12, sp, 0
    l32i.n a4, a2, 0
    l32i.n a5, a2, 4
    ssai 15
    src a12, a5, a4
    ssai 27
    src a6, a5, a4
    xor a12, a12, a6
    and a6, a6, a5
    s32i.n a12, a2, 8
    s32i.n a6, a2, 12
    l32i.n a12, sp, 0
    addi sp, sp, 32
    ret.n
"""
c = run("xtensa", xt, kw={"windowed": False})
f15 = ((a >> 15) | (b << 17)) & 0xFFFFFFFF
f27 = ((a >> 27) | (b << 5)) & 0xFFFFFFFF
expect("xtensa src", c.mem.state_words()[2] == f15 ^ f27 and c.mem.state_words()[3] == f27 & b)
c = run("xtensa", "f:\n entry sp, 32\n l32i.n a4, a2, 0\n.L:\n addi a4, a4, 1\n addi a3, a3, -1\n bnei a3, 0, .L\n s32i.n a4, a2, 0\n retw.n\n", rounds=7, kw={"windowed": True})
expect("xtensa windowed loop", c.mem.state_words()[0] == 0x11111111 + 7)
expect("xtensa callee-saved", violates("xtensa", "f:\n addi a12, a3, 1\n ret.n\n", "abi-callee-saved", kw={"windowed": False}))
expect("xtensa entry under call0", violates("xtensa", "f:\n entry sp, 32\n retw.n\n", "abi-entry-in-call0", kw={"windowed": False}))
expect("xtensa ret under windowed", violates("xtensa", "f:\n entry sp, 32\n ret.n\n", "abi-ret-in-windowed", kw={"windowed": True}))
expect("xtensa retw without entry", violates("xtensa", "f:\n retw.n\n", "abi-retw-without-entry", kw={"windowed": True}))
expect("xtensa src without ssai", violates("xtensa", "f:\n src a4, a5, a6\n ret.n\n", "uninitialised-sar", kw={"windowed": False}))

print("emu selftest: %d checks, %d failures%s" % (ntests, len(fails), (": " + ", ".join(fails)) if fails else ""))
sys.exit(1 if fails else 0)
