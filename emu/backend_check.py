#!/usr/bin/env python3
"""Runs ONE assembly backend program (one .S file under one macro set) in its interpreter against the
bit-serial specification and prints the harness line protocol (S/M/K/E/V/DONE) for engine/core.py.

usage: backend_check.py --repo /repo --target <name> --keybits 128|192|256 --permtool PATH --seed N [--thorough] [--only I]
"""
import hashlib, json, os, random, subprocess, sys, tempfile

sys.path.insert(0, os.path.dirname(os.path.abspath(__file__)))
import emu
from emu import Violation

# target -> (file suffix, family, cpp macros, Program kwargs, expected backend macro)
TARGETS = {
    "avr5":            ("avr5", "avr", ["__AVR__", "__AVR_ARCH__=5"], {}, "TINYJAMBU_BACKEND_AVR5"),
    "armv6":           ("armv6", "arm", ["__ARM_ARCH=6"], {"thumb": False}, "TINYJAMBU_BACKEND_ARMV6"),
    "armv6m":          ("armv6m", "arm", ["__ARM_ARCH_ISA_THUMB=1", "__ARM_ARCH=6", "__ARM_ARCH_6M__"], {"thumb": True, "thumb1": True}, "TINYJAMBU_BACKEND_ARMV6M"),
    "armv7m":          ("armv7m", "arm", ["__ARM_ARCH_ISA_THUMB=2", "__ARM_ARCH=7"], {"thumb": True}, "TINYJAMBU_BACKEND_ARMV7M"),
    "riscv32e":        ("riscv32e", "riscv", ["__riscv", "__riscv_xlen=32", "__riscv_32e"], {"xlen": 32, "rve": True}, "TINYJAMBU_BACKEND_RISCV32E"),
    "riscv32i":        ("riscv32i", "riscv", ["__riscv", "__riscv_xlen=32"], {"xlen": 32}, "TINYJAMBU_BACKEND_RISCV32I"),
    "riscv64i":        ("riscv64i", "riscv", ["__riscv", "__riscv_xlen=64"], {"xlen": 64}, "TINYJAMBU_BACKEND_RISCV64I"),
    "xtensa-call0":    ("xtensa", "xtensa", ["__XTENSA__"], {"windowed": False}, "TINYJAMBU_BACKEND_XTENSA"),
    "xtensa-windowed": ("xtensa", "xtensa", ["__XTENSA__", "__XTENSA_WINDOWED_ABI__"], {"windowed": True}, "TINYJAMBU_BACKEND_XTENSA"),
}
# additional macro sets that must resolve to a backend (selection logic only)
SELECT_ONLY = [
    (["__ARM_ARCH_ISA_THUMB=2", "__ARM_ARCH=8", "__ARM_ARCH_8M__"], "TINYJAMBU_BACKEND_ARMV7M"),
    (["__XTENSA__", "ESP8266"], "TINYJAMBU_BACKEND_XTENSA"),
    (["TINYJAMBU_FORCE_C32", "__riscv", "__riscv_xlen=32"], "TINYJAMBU_BACKEND_C32"),
    ([], "TINYJAMBU_BACKEND_C32"),
]
USED_ROUNDS = [5, 8, 9, 10, 20]


def out(line):
    sys.stdout.write(line + "\n")


def class_key(*parts):
    return int(hashlib.sha1(repr(parts).encode()).hexdigest()[:15], 16)


def build_inputs(keybits, thorough, rnd):
    """-> list of (rounds, state_words[4], key bytes, family)"""
    kb = keybits // 8
    cases = []

    def structured(rounds):
        for b in range(128):
            s = [0, 0, 0, 0]
            s[b >> 5] = 1 << (b & 31)
            cases.append((rounds, s, bytes(kb), "single-bit-state"))
        for b in range(keybits):
            k = bytearray(kb)
            k[b >> 3] = 1 << (b & 7)
            cases.append((rounds, [0, 0, 0, 0], bytes(k), "single-bit-key"))
        cases.append((rounds, [0xFFFFFFFF] * 4, b"\xff" * kb, "all-ones"))
        cases.append((rounds, [0, 0, 0, 0], bytes(kb), "all-zero"))

    if thorough:
        for rounds in range(1, 25):
            structured(rounds)
            for _ in range(1200):
                cases.append((rounds, [rnd.getrandbits(32) for _ in range(4)], bytes(rnd.getrandbits(8) for _ in range(kb)), "random"))
    else:
        structured(3)       # three rounds consume every key word of every key size at least once
        for rounds in (1, 2, 3, 5, 8, 9, 10, 20, 24):
            for _ in range(6):
                cases.append((rounds, [rnd.getrandbits(32) for _ in range(4)], bytes(rnd.getrandbits(8) for _ in range(kb)), "random"))
        cases.append((24, [0xFFFFFFFF] * 4, b"\xff" * kb, "all-ones"))
    return cases


def main():
    a = sys.argv[1:]
    opt = {"--seed": "1"}
    i = 0
    thorough = False
    while i < len(a):
        if a[i] == "--thorough":
            thorough = True; i += 1
        else:
            opt[a[i]] = a[i + 1]; i += 2
    repo, target, keybits = opt["--repo"], opt["--target"], int(opt["--keybits"])
    only = int(opt["--only"]) if "--only" in opt else None
    text_override = opt.get("--text")          # pre-made instruction text (LLVM round trip), same checks
    suffix, family, macros, kw, want = TARGETS[target]
    backend = os.path.join(repo, "src", "backend")
    path = os.path.join(backend, "tinyjambu-%d-asm-%s.S" % (keybits, suffix))
    func = "tinyjambu_permutation_%d" % keybits
    ident = "%s/%d" % (target, keybits)
    nviol = 0

    def viol(key, case, msg):
        nonlocal nviol
        nviol += 1
        if nviol <= 20:
            out("V %s %s" % (key, json.dumps({"case": case, "witness": msg})))

    stub = tempfile.mkdtemp(prefix="tjv-avrstub-")
    os.makedirs(os.path.join(stub, "avr"))
    open(os.path.join(stub, "avr", "io.h"), "w").write("/* stub */\n")
    base_case = {"h": "emu", "program": ident, "file": os.path.basename(path), "macros": macros}
    try:
        # --- backend selection: exactly one backend macro, and the right one
        sel = emu.selected_backends(macros, backend)
        if sel != [want]:
            viol("backend-selection:%s" % target, base_case, "macro set %s selects %s, expected exactly [%s]" % (macros, sel, want))
        if target == "armv7m" and keybits == 128:
            for ms, w in SELECT_ONLY:
                s2 = emu.selected_backends(ms, backend)
                if len(s2) != 1:         # which one is the project's choice; that there is exactly one is the property
                    viol("backend-selection:extra", {"h": "emu", "macros": ms}, "macro set %s selects %s, expected exactly one backend (pinned tree: %s)" % (ms, s2, w))
        if not os.path.exists(path):
            viol("backend-file-missing:%s" % ident, base_case, "%s does not exist" % path)
            raise SystemExit
        text = open(text_override).read() if text_override else emu.preprocess(path, macros, backend, stub)
        try:
            prog = emu.Program(family, text, func, **kw)
        except Violation as v:
            viol("%s:%s" % (v.key, ident), base_case, v.msg)
            raise SystemExit
        if len(prog.instrs) < 20:
            viol("backend-empty:%s" % ident, base_case, "only %d instructions after preprocessing: the file is not selected by its own macro set" % len(prog.instrs))
            raise SystemExit
        rnd = random.Random(int(opt["--seed"]) * 1000003 + class_key(ident) % 1000003)
        cases = build_inputs(keybits, thorough, rnd)
        # --- oracle: bit-serial spec via the C model
        inp = "".join("%d %d %x %x %x %x %s\n" % (keybits, r, s[0], s[1], s[2], s[3], k.hex()) for r, s, k, fam in cases)
        pr = subprocess.run([opt["--permtool"]], input=inp.encode(), stdout=subprocess.PIPE)
        exp = [[int(w, 16) for w in l.split()] for l in pr.stdout.decode().splitlines()]
        if len(exp) != len(cases):
            sys.stderr.write("permtool returned %d lines for %d cases\n" % (len(exp), len(cases)))
            sys.exit(2)
        call = emu.CALLERS[family]
        traces = {}
        classes = set()
        evals = instrs = 0
        loads = stores = 0
        for ci, ((rounds, s, key, fam), e) in enumerate(zip(cases, exp)):
            if only is not None and ci != only:
                continue
            # the backends take the key PRE-INVERTED in the struct
            kinv = bytes(b ^ 0xFF for b in key)
            sb = b"".join(w.to_bytes(4, "little") for w in s) + kinv
            case = dict(base_case, i=ci, rounds=rounds, family=fam, state=["%08x" % w for w in s], key=key.hex())
            try:
                if family == "arm":
                    cpu = call(prog, sb, len(key), rounds, kw.get("thumb", False), rnd)
                else:
                    cpu = call(prog, sb, len(key), rounds, rnd)
            except Violation as v:
                viol("%s:%s" % (v.key, ident), case, v.msg)
                continue
            evals += 1
            instrs += cpu.steps
            loads += cpu.mem.reads; stores += cpu.mem.writes
            got = cpu.mem.state_words()
            if got != e:
                viol("asm-backend-mismatch:%s" % ident, case, "expected %s got %s" % (" ".join("%08x" % w for w in e), " ".join("%08x" % w for w in got)))
            if cpu.mem.key_bytes() != kinv:
                viol("asm-backend-modified-key:%s" % ident, case, "key bytes in the state struct changed")
            t = traces.setdefault(rounds, cpu.trace)
            if t != cpu.trace:
                viol("data-dependent-control-flow:%s" % ident, case, "executed instruction sequence for %d rounds differs between inputs" % rounds)
            classes.add(class_key(ident, rounds, fam, ci if fam != "random" else ("r", ci)))
            if ci % 197 == 0 or only is not None:
                out("E " + json.dumps(case))
        out("S evaluations %d" % evals)
        out("S interpreted_calls %d" % evals)
        out("S interpreted_instructions %d" % instrs)
        out("S interpreted_loads %d" % loads)
        out("S interpreted_stores %d" % stores)
        out("S interpreted_programs 1")
        out("S abi_checks %d" % evals)
        out("M distinct_round_counts_per_program %d" % len(traces))
        out("I %s: %d instructions in file, mnemonics %s" % (ident, len(prog.instrs), " ".join(sorted(prog.mnemonics))))
        for j in range(0, len(classes), 64):
            out("K " + " ".join("%x" % c for c in list(classes)[j:j + 64]))
    except SystemExit:
        pass
    finally:
        import shutil
        shutil.rmtree(stub, ignore_errors=True)
    out("S violations_emitted %d" % nviol)
    out("DONE")


if __name__ == "__main__":
    main()
