/*
 * Reentrancy / thread-safety monitor (property C19).
 *
 * A table of N operations (each a whole API call or a short incremental session on PRIVATE objects; inputs derive
 * from (seed, op index)) is executed
 *   --mode stress    serially first (expected results), then by T threads, each running its own random permutation
 *                    of the whole table, released by a barrier, with yield / nanosleep jitter BETWEEN calls; every
 *                    concurrent result must equal the serial one.  Built with -fsanitize=thread the same run is watched
 *                    by TSan.  An atomic ticket and a per-thread "current op type" slot measure which operation pairs
 *                    really overlapped in time.
 *   --mode serial    serially in permutation order p3 (0 = identity), results written to $VERIF_RESULTS: history
 *                    independence is judged by the engine across processes and orders.
 *   --mode snapshot  serially, hashing the writable mappings of libtinyjambu.so before/after every operation
 *                    (needs the shared library and LD_BIND_NOW=1).
 *   --mode heap      serially with malloc/calloc/realloc/free/posix_memalign/mmap interposed (-DVERIF_HEAPMON):
 *                    any allocator call made while a library call is in progress is a violation.
 */
#include "common.h"
#include "TinyJAMBU.h"
#include <pthread.h>
#include <sched.h>
#include <time.h>
#include <stdatomic.h>
#include <sys/syscall.h>

#define NTYPES 14
static const char *const TYPE_NAME[NTYPES] = {"aead128", "aead192", "aead256", "siv128", "siv192", "siv256", "hash", "hmac", "hkdf",
                                              "pbkdf2", "prng-callback", "clean+free", "prng-system", "hkdf-incremental"};

typedef void (*enc_fn)(unsigned char *, size_t *, const unsigned char *, size_t, const unsigned char *, size_t, const unsigned char *, const unsigned char *);
typedef int (*dec_fn)(unsigned char *, size_t *, const unsigned char *, size_t, const unsigned char *, size_t, const unsigned char *, const unsigned char *);
static const struct { int ks; enc_fn e; dec_fn d; } AE[6] = {
    {16, tinyjambu_128_aead_encrypt, tinyjambu_128_aead_decrypt}, {24, tinyjambu_192_aead_encrypt, tinyjambu_192_aead_decrypt},
    {32, tinyjambu_256_aead_encrypt, tinyjambu_256_aead_decrypt}, {16, tinyjambu_128_siv_encrypt, tinyjambu_128_siv_decrypt},
    {24, tinyjambu_192_siv_encrypt, tinyjambu_192_siv_decrypt}, {32, tinyjambu_256_siv_encrypt, tinyjambu_256_siv_decrypt}};

/* ---- deterministic per-thread OS entropy stub (so that the system-source path is comparable and race-checked) */
static __thread uint64_t tl_ent = 0;
static __thread int tl_inlib = 0;
ssize_t getrandom(void *buf, size_t len, unsigned int flags)
{
    size_t i; uint8_t *p = (uint8_t *)buf;
    (void)flags;
    for (i = 0; i < len; ++i) p[i] = (uint8_t)splitmix64(&tl_ent);
    return (ssize_t)len;
}
int getentropy(void *buf, size_t len) { getrandom(buf, len, 0); return 0; }

/* ---- optional allocator interposition */
#if defined(VERIF_HEAPMON)
extern void *__libc_malloc(size_t); extern void __libc_free(void *); extern void *__libc_calloc(size_t, size_t);
extern void *__libc_realloc(void *, size_t); extern void *__libc_memalign(size_t, size_t);
static atomic_ulong heap_calls_inside = 0, heap_calls_outside = 0;
static void heap_event(void) { if (tl_inlib) atomic_fetch_add(&heap_calls_inside, 1); else atomic_fetch_add(&heap_calls_outside, 1); }
void *malloc(size_t n) { heap_event(); return __libc_malloc(n); }
void free(void *p) { if (p) heap_event(); __libc_free(p); }
void *calloc(size_t a, size_t b) { heap_event(); return __libc_calloc(a, b); }
void *realloc(void *p, size_t n) { heap_event(); return __libc_realloc(p, n); }
int posix_memalign(void **out, size_t al, size_t n) { heap_event(); *out = __libc_memalign(al, n); return *out ? 0 : ENOMEM; }
void *aligned_alloc(size_t al, size_t n) { heap_event(); return __libc_memalign(al, n); }
void *mmap(void *addr, size_t len, int prot, int flags, int fd, off_t off)
{
    heap_event();
    return (void *)syscall(SYS_mmap, addr, len, prot, flags, fd, off);
}
#endif

/* ---- result digest (not the library's hash) */
typedef struct { uint64_t h[4]; } res_t;
static void res_init(res_t *r, uint64_t s) { r->h[0] = s; r->h[1] = ~s; r->h[2] = s * 3; r->h[3] = 0x1234; }
static void res_add(res_t *r, const void *p, size_t n)
{
    const uint8_t *b = (const uint8_t *)p; size_t i;
    for (i = 0; i < n; ++i) { r->h[i & 3] = mix64(r->h[i & 3], b[i] + 0x100 * (i & 0xFF)); }
    r->h[0] = mix64(r->h[0], n);
}

static size_t op_cb(void *ud, unsigned char *buf, size_t size)
{
    uint64_t *s = (uint64_t *)ud; size_t i, n = size;
    /* some requests are answered short or not at all (the header allows it): whatever the library then mixes in must
     * still be a function of the call's own inputs, not of what earlier unrelated calls left on the stack */
    if ((*s & 3) == 1) n = size / 2;
    if ((*s & 7) == 6) n = 0;
    for (i = 0; i < n; ++i) buf[i] = (uint8_t)splitmix64(s);
    (void)splitmix64(s);
    return n;
}

/* one operation on private stack objects */
static void run_op(uint64_t seed, long op, res_t *out)
{
    rng_t r = rng_for(seed, 0xC0FC, (uint64_t)op);
    int type = (int)(op % NTYPES);
    uint8_t in[160], in2[96], key[96], buf[256], buf2[256];
    size_t la = rnd(&r, 40), lb = rnd(&r, 70);
    fill_random(&r, in, sizeof in); fill_random(&r, in2, sizeof in2); fill_random(&r, key, sizeof key);
    if (type < 6 && (op / NTYPES) % 2) {
        /* every other AEAD/SIV operation uses a key whose first 16 bytes are common to its type: a cache keyed on a
         * key prefix, or a "same key as last time" shortcut, then makes results depend on the order of calls */
        rng_t rk = rng_for(seed, 0x6E1, (uint64_t)type);
        fill_random(&rk, key, 16);
    }
    res_init(out, (uint64_t)op);
    tl_inlib = 1;
    switch (type) {
    case 0: case 1: case 2: case 3: case 4: case 5: {
        size_t cl = 0, ml = 0; int rc;
        AE[type].e(buf, &cl, in, lb, in2, la, key + 64, key);
        res_add(out, buf, cl);
        rc = AE[type].d(buf2, &ml, buf, cl, in2, la, key + 64, key);
        res_add(out, &rc, sizeof rc); res_add(out, buf2, ml);
        buf[cl - 1] ^= 1;
        rc = AE[type].d(buf2, &ml, buf, cl, in2, la, key + 64, key);
        res_add(out, &rc, sizeof rc); res_add(out, buf2, ml);
        break; }
    case 6: {
        tinyjambu_hash_state_t st;
        tinyjambu_hash(buf, in, la + lb); res_add(out, buf, 32);
        tinyjambu_hash_init(&st); tinyjambu_hash_update(&st, in, la); tinyjambu_hash_update(&st, in + la, lb);
        tinyjambu_hash_finalize(&st, buf); tinyjambu_hash_free(&st); res_add(out, buf, 32);
        break; }
    case 7: {
        tinyjambu_hmac_state_t st;
        tinyjambu_hmac(buf, key, la + 40, in, lb); res_add(out, buf, 32);
        tinyjambu_hmac_init(&st, key, 70 + la % 20); tinyjambu_hmac_update(&st, in, lb);
        tinyjambu_hmac_finalize(&st, key, 70 + la % 20, buf); tinyjambu_hmac_free(&st); res_add(out, buf, 32);
        break; }
    case 8: {
        int rc = tinyjambu_hkdf(buf, 33 + lb, key, la, in2, lb, in, la);
        res_add(out, &rc, sizeof rc); res_add(out, buf, 33 + lb);
        break; }
    case 9:
        tinyjambu_pbkdf2(buf, 20 + la, key, lb, in2, la, 1 + op % 3);
        res_add(out, buf, 20 + la);
        break;
    case 10: {
        tinyjambu_prng_state_t st; uint64_t es = seed ^ (uint64_t)op; int rc;
        uint8_t big[1200];
        rc = tinyjambu_prng_init_user(&st, op_cb, &es, in, la);
        tinyjambu_prng_set_reseed_limit(&st, 64 + lb);
        tinyjambu_prng_generate(&st, big, 100 + la * 8);
        tinyjambu_prng_feed(&st, in2, lb);
        tinyjambu_prng_generate(&st, big + 600, 40);
        rc += tinyjambu_prng_reseed(&st);
        tinyjambu_prng_free(&st);
        res_add(out, &rc, sizeof rc); res_add(out, big, 100 + la * 8); res_add(out, big + 600, 40);
        break; }
    case 11: {
        tinyjambu_hash_state_t hs; tinyjambu_hkdf_state_t ks;
        memcpy(buf, in, 160);
        tinyjambu_clean(buf + la, (unsigned)lb);
        res_add(out, buf, 160);
        tinyjambu_hash_init(&hs); tinyjambu_hash_update(&hs, in, lb); tinyjambu_hash_free(&hs); res_add(out, &hs, sizeof hs);
        tinyjambu_hkdf_extract(&ks, key, la, in, lb); tinyjambu_hkdf_free(&ks); res_add(out, &ks, sizeof ks);
        break; }
    case 12: {
        tinyjambu_prng_state_t st; int rc; uint8_t big[1200];
        tl_ent = seed * 31 + (uint64_t)op;              /* deterministic "OS" bytes for this op */
        rc = tinyjambu_prng_init(&st, in, la);
        tinyjambu_prng_generate(&st, big, 1100);        /* crosses the automatic reseed -> second OS request */
        tinyjambu_prng_free(&st);
        res_add(out, &rc, sizeof rc); res_add(out, big, 1100);
        break; }
    default: {
        tinyjambu_hkdf_state_t st; int rc;
        tinyjambu_hkdf_extract(&st, key, lb, in2, la);
        rc = tinyjambu_hkdf_expand(&st, in, la, buf, 10 + la);
        rc += tinyjambu_hkdf_expand(&st, in, la, buf + 60, 50 + lb);
        tinyjambu_hkdf_free(&st);
        res_add(out, &rc, sizeof rc); res_add(out, buf, 10 + la); res_add(out, buf + 60, 50 + lb);
        break; }
    }
    tl_inlib = 0;
}

/* ------------------------------------------------------------------ stress */

static long N;
static uint64_t g_seed;
static res_t *g_serial;
static pthread_barrier_t g_bar;
static atomic_ulong g_ticket = 0, g_overlap_entries = 0, g_mismatch = 0, g_concurrent_ops = 0;
#define MAXT 64
static atomic_int g_cur[MAXT];
static atomic_uchar g_pairs[NTYPES][NTYPES];
static int g_T;

typedef struct { int t; uint64_t rs; long first_bad; } targ_t;

static void *worker(void *vp)
{
    targ_t *ta = (targ_t *)vp;
    rng_t r = rng_for(g_seed, 0x7EAD, ta->rs);
    long *perm = (long *)malloc(sizeof(long) * (size_t)N), i;
    ta->first_bad = -1;
    for (i = 0; i < N; ++i) perm[i] = i;
    for (i = N - 1; i > 0; --i) { long j = (long)rnd(&r, (uint32_t)i + 1), x = perm[i]; perm[i] = perm[j]; perm[j] = x; }
    pthread_barrier_wait(&g_bar);
    for (i = 0; i < N; ++i) {
        res_t res;
        long op = perm[i];
        int type = (int)(op % NTYPES), o, any = 0;
        atomic_store(&g_cur[ta->t], type + 1);
        atomic_fetch_add(&g_ticket, 1);
        run_op(g_seed, op, &res);
        /* who else is inside the library right now?  (sampled at exit: both were in flight together) */
        for (o = 0; o < g_T; ++o) {
            int c;
            if (o == ta->t) continue;
            c = atomic_load(&g_cur[o]);
            if (c) { any = 1; atomic_store(&g_pairs[type][c - 1], 1); }
        }
        atomic_store(&g_cur[ta->t], 0);
        if (any) atomic_fetch_add(&g_overlap_entries, 1);
        atomic_fetch_add(&g_concurrent_ops, 1);
        if (memcmp(&res, &g_serial[op], sizeof res)) {
            atomic_fetch_add(&g_mismatch, 1);
            if (ta->first_bad < 0) ta->first_bad = op;
        }
        /* jitter between calls, never inside (the library has no suspension points) */
        switch (rnd(&r, 8)) {
        case 0: sched_yield(); break;
        case 1: { struct timespec ts = {0, (long)rnd(&r, 20000)}; nanosleep(&ts, NULL); } break;
        default: break;
        }
    }
    free(perm);
    return NULL;
}

/* ------------------------------------------------------------------ snapshot of writable library mappings */

static uint64_t hash_rw_maps(const char *needle, int *nmaps, size_t *nbytes)
{
    FILE *f = fopen("/proc/self/maps", "r");
    char line[512];
    uint64_t h = 0x9E37;
    *nmaps = 0; *nbytes = 0;
    if (!f) return 0;
    while (fgets(line, sizeof line, f)) {
        unsigned long lo, hi; char perms[8];
        if (!strstr(line, needle)) continue;
        if (sscanf(line, "%lx-%lx %7s", &lo, &hi, perms) != 3) continue;
        if (perms[1] != 'w') continue;
        { const uint8_t *p = (const uint8_t *)lo; size_t n = hi - lo, i; for (i = 0; i < n; i += 8) { uint64_t v; memcpy(&v, p + i, 8); h = mix64(h, v); } *nbytes += n; }
        ++*nmaps;
    }
    fclose(f);
    return h;
}

int main(int argc, char **argv)
{
    args_t a = parse_args(argc, argv);
    long i;
    unsigned long long evals = 0;
    install_crash_handlers();
    N = a.p1 > 0 ? a.p1 : 1000;
    g_seed = a.seed;
    g_serial = (res_t *)calloc((size_t)N, sizeof(res_t));
    if (!strcmp(a.mode, "stress")) {
        int T = a.p2 > 0 ? (int)a.p2 : 8, rep, reps = a.p3 > 0 ? (int)a.p3 : 1, x, y, npairs = 0;
        pthread_t th[MAXT]; targ_t ta[MAXT];
        if (T > MAXT) T = MAXT;
        g_T = T;
        set_case("{\"h\":\"conc\",\"mode\":\"stress\",\"ops\":%ld,\"threads\":%d,\"reps\":%d,\"phase\":\"serial\"}", N, T, reps);
        for (i = 0; i < N; ++i) run_op(g_seed, i, &g_serial[i]);
        for (rep = 0; rep < reps; ++rep) {
            set_case("{\"h\":\"conc\",\"mode\":\"stress\",\"ops\":%ld,\"threads\":%d,\"rep\":%d,\"phase\":\"concurrent\"}", N, T, rep);
            pthread_barrier_init(&g_bar, NULL, (unsigned)T);
            for (x = 0; x < T; ++x) { ta[x].t = x; ta[x].rs = (uint64_t)(rep * 1000 + x + a.batch * 100000); pthread_create(&th[x], NULL, worker, &ta[x]); }
            for (x = 0; x < T; ++x) pthread_join(th[x], NULL);
            pthread_barrier_destroy(&g_bar);
            for (x = 0; x < T; ++x)
                if (ta[x].first_bad >= 0) {
                    char key[96];
                    set_case("{\"h\":\"conc\",\"mode\":\"stress\",\"ops\":%ld,\"threads\":%d,\"rep\":%d,\"op\":%ld,\"op_type\":\"%s\"}", N, T, rep, ta[x].first_bad, TYPE_NAME[ta[x].first_bad % NTYPES]);
                    snprintf(key, sizeof key, "concurrent-differs-from-serial:%s", TYPE_NAME[ta[x].first_bad % NTYPES]);
                    emit_viol(key, "thread %d: result of operation %ld under concurrency differs from its serial result (%lu mismatches in total)", x, ta[x].first_bad, (unsigned long)atomic_load(&g_mismatch));
                }
            emit_sample();
        }
        for (x = 0; x < NTYPES; ++x) for (y = 0; y < NTYPES; ++y) if (atomic_load(&g_pairs[x][y])) { ++npairs; cls_add(mix64((uint64_t)x + 1, (uint64_t)y + 1)); }
        evals = atomic_load(&g_concurrent_ops);
        emit_stat("concurrent_operations_compared", evals);
        emit_stat("operations_that_overlapped_another", atomic_load(&g_overlap_entries));
        emit_max("distinct_overlapping_type_pairs", (unsigned long long)npairs);
        emit_max("threads", (unsigned long long)T);
        emit_stat("serial_reference_operations", (unsigned long long)N);
        if (atomic_load(&g_overlap_entries) < (unsigned long)(evals / 20))
            emit_info("LOW-OVERLAP: only %lu of %llu operations overlapped", (unsigned long)atomic_load(&g_overlap_entries), evals);
    } else if (!strcmp(a.mode, "serial")) {
        rng_t r = rng_for(a.seed, 0x9E2A, (uint64_t)a.p3);
        long *perm = (long *)malloc(sizeof(long) * (size_t)N);
        const char *path = getenv("VERIF_RESULTS");
        FILE *f;
        for (i = 0; i < N; ++i) perm[i] = i;
        if (a.p3) for (i = N - 1; i > 0; --i) { long j = (long)rnd(&r, (uint32_t)i + 1), x = perm[i]; perm[i] = perm[j]; perm[j] = x; }
        set_case("{\"h\":\"conc\",\"mode\":\"serial\",\"ops\":%ld,\"order\":%ld}", N, a.p3);
        for (i = 0; i < N; ++i) { if (a.only >= 0 && perm[i] != a.only) continue; run_op(g_seed, perm[i], &g_serial[perm[i]]); ++evals; }
        if (!path || !(f = fopen(path, "wb"))) { fprintf(stderr, "VERIF_RESULTS not writable\n"); return 2; }
        fwrite(g_serial, sizeof(res_t), (size_t)N, f); fclose(f);
        emit_sample();
        emit_stat("serial_operations", evals);
    } else if (!strcmp(a.mode, "snapshot")) {
        int nm = 0; size_t nb = 0; uint64_t h0, h1; unsigned long long changes = 0;
        h0 = hash_rw_maps("libtinyjambu", &nm, &nb);
        if (nm == 0) { fprintf(stderr, "no writable mapping of libtinyjambu found (not linked to the shared library?)\n"); return 2; }
        for (i = 0; i < N; ++i) {
            res_t res; int nm2; size_t nb2;
            set_case("{\"h\":\"conc\",\"mode\":\"snapshot\",\"op\":%ld,\"op_type\":\"%s\"}", i, TYPE_NAME[i % NTYPES]);
            run_op(g_seed, i, &res);
            h1 = hash_rw_maps("libtinyjambu", &nm2, &nb2);
            ++evals;
            if (h1 != h0) {
                char key[96];
                snprintf(key, sizeof key, "library-writable-state-changed:%s", TYPE_NAME[i % NTYPES]);
                if (changes < 3) emit_viol(key, "the writable mapping(s) of libtinyjambu.so (%d mapping(s), %zu bytes) changed during operation %ld: the library keeps writable global/static state", nm2, nb2, i);
                ++changes; h0 = h1;
            }
            cls_add(mix64(0x5A, (uint64_t)(i % NTYPES)));
        }
        emit_sample();
        emit_stat("snapshot_comparisons", evals); emit_max("writable_library_mappings", (unsigned long long)nm); emit_max("writable_library_bytes", nb);
    } else if (!strcmp(a.mode, "heap")) {
#if defined(VERIF_HEAPMON)
        for (i = 0; i < N; ++i) {
            res_t res; unsigned long before = atomic_load(&heap_calls_inside);
            set_case("{\"h\":\"conc\",\"mode\":\"heap\",\"op\":%ld,\"op_type\":\"%s\"}", i, TYPE_NAME[i % NTYPES]);
            run_op(g_seed, i, &res);
            ++evals;
            if (atomic_load(&heap_calls_inside) != before) {
                char key[96];
                snprintf(key, sizeof key, "heap-use-inside-library:%s", TYPE_NAME[i % NTYPES]);
                emit_viol(key, "allocator / mmap was called %lu time(s) while operation %ld was inside the library", atomic_load(&heap_calls_inside) - before, i);
            }
            cls_add(mix64(0x4E, (uint64_t)(i % NTYPES)));
        }
        /* control: the interposer does see allocator calls */
        { void *p = malloc(100); free(p); }
        emit_sample();
        emit_stat("heap_monitored_operations", evals); emit_stat("allocator_calls_seen_outside_library", atomic_load(&heap_calls_outside));
#else
        fprintf(stderr, "built without VERIF_HEAPMON\n"); return 2;
#endif
    } else { fprintf(stderr, "bad mode\n"); return 2; }
    emit_stat("evaluations", evals);
    finish();
    return 0;
}
