/*
 * Memory-safety / buffer-contract workload (property C06).  No reference model here: the oracles are
 *   - guard pages: every caller buffer is sized exactly to the documented length and abuts a PROT_NONE page
 *     (end or start), inputs live in PROT_READ pages, state objects end at a guard page;
 *   - canaries (ASan-poisoned when available) for the mid placement with alignment offsets 0..7;
 *   - junk differential: every call is executed twice with different junk in all output buffers, state objects and
 *     the dead stack below the call; outputs must be identical (no dependence on uninitialised memory);
 *   - under MSan / memcheck: outputs, states and dead stack are POISONED before the call and every output is asserted
 *     fully initialised after it;
 *   - the sanitizer itself (ASan / UBSan / MSan builds run this same workload).
 * --mode all | aead | hash | hmac | hkdf | pbkdf2 | prng | clean   --p1 window  --p3 large-size cases
 */
#include "common.h"
#include "TinyJAMBU.h"

typedef void (*enc_fn)(unsigned char *, size_t *, const unsigned char *, size_t, const unsigned char *, size_t, const unsigned char *, const unsigned char *);
typedef int (*dec_fn)(unsigned char *, size_t *, const unsigned char *, size_t, const unsigned char *, size_t, const unsigned char *, const unsigned char *);
static const struct { const char *name; int ks; enc_fn e; dec_fn d; } AE[6] = {
    {"aead128", 16, tinyjambu_128_aead_encrypt, tinyjambu_128_aead_decrypt}, {"aead192", 24, tinyjambu_192_aead_encrypt, tinyjambu_192_aead_decrypt},
    {"aead256", 32, tinyjambu_256_aead_encrypt, tinyjambu_256_aead_decrypt}, {"siv128", 16, tinyjambu_128_siv_encrypt, tinyjambu_128_siv_decrypt},
    {"siv192", 24, tinyjambu_192_siv_encrypt, tinyjambu_192_siv_decrypt}, {"siv256", 32, tinyjambu_256_siv_encrypt, tinyjambu_256_siv_decrypt}};

#define NB 9
static gbuf_t B[NB];      /* 0..3 inputs, 4..6 outputs, 7 state object, 8 second state */
static const char *const ROLE[NB] = {"in0", "in1", "in2", "in3", "out0", "out1", "out2", "state", "state2"};
static unsigned long long n_eval, n_calls, n_pairs, n_out_bytes, n_defined_checks, n_end, n_start, n_mid, n_null, n_inplace, n_large;
static const char *g_api = "";

typedef struct { uint64_t h[2]; } res_t;
static void res_add(res_t *r, const void *p, size_t n)
{
    const uint8_t *b = (const uint8_t *)p; size_t i;
    for (i = 0; i < n; ++i) r->h[i & 1] = mix64(r->h[i & 1], b[i]);
    r->h[0] = mix64(r->h[0], n);
}

static void poison(void *p, size_t n) { if (n) { MSAN_POISON(p, n); VG_UNDEF(p, n); } }
static void must_be_defined(const void *p, size_t n, const char *what)
{
    if (!n) return;
    ++n_defined_checks;
    MSAN_CHECK(p, n);
#if defined(VERIF_VALGRIND)
    if (VG_CHECK(p, n)) { char key[96]; snprintf(key, sizeof key, "undefined-output:%s", g_api); emit_viol(key, "%s: output bytes depend on uninitialised memory (memcheck)", what); VG_DEF(p, n); }
#else
    (void)what;
#endif
}

__attribute__((noinline)) static void paint_stack(uint8_t j)
{
    volatile uint8_t a[12288];
    size_t i;
    for (i = 0; i < sizeof a; ++i) a[i] = (uint8_t)(j + i);
    __asm__ volatile("" : : "r"(a) : "memory");
    poison((void *)a, sizeof a);
}

static uint8_t *IN(int slot, size_t len, long idx, rng_t *r, int nullmode)
{
    int place = (int)((idx + slot) % 3);
    uint8_t *p = gb_place(&B[slot], len, place, (unsigned)((idx * 3 + slot * 5) & 7), nullmode, 0);
    if (len) { fill_class(r, p, len, (int)((idx + slot) % BC_N)); gb_readonly(&B[slot]); }
    if (len == 0 && nullmode) ++n_null;
    if (place == PL_END) ++n_end; else if (place == PL_START) ++n_start; else ++n_mid;
    return p;
}
static uint8_t *OUT(int slot, size_t len, long idx, uint8_t junk, int nullmode)
{
    int place = (int)((idx / 2 + slot) % 3);
    uint8_t *p = gb_place(&B[slot], len, place, (unsigned)((idx * 7 + slot) & 7), nullmode, junk);
    poison(p, len);
    return p;
}
/* state objects: natural alignment, last byte against the guard page */
static void *STATE(int slot, size_t size, uint8_t junk)
{
    uint8_t *p = gb_place(&B[slot], size, PL_END, 0, 0, junk);
    poison(p, size);
    return p;
}
static void release_inputs(void) { int i; for (i = 0; i < 4; ++i) gb_writable(&B[i]); }
static void check_canaries(void)
{
    int i;
    for (i = 4; i < NB; ++i)
        if (gb_canary_bad(&B[i])) { char key[96]; snprintf(key, sizeof key, "wrote-outside:%s:%s", g_api, ROLE[i]); emit_viol(key, "bytes next to the %zu-byte %s buffer were modified", B[i].len, ROLE[i]); }
}
static void report_fault(void)
{
    int i, side = 0; const char *w = "unmapped";
    char key[128];
    for (i = 0; i < NB; ++i) { int c = gb_classify(&B[i], g_fault_addr); if (c) { side = c; w = ROLE[i]; break; } }
    snprintf(key, sizeof key, "guard-fault:%s:%s:%s", g_api, w, side == 1 ? "before-start" : side == 2 ? "past-end" : side == 3 ? "write-to-readonly-input" : "wild");
    emit_viol(key, "access at %p outside the declared range of buffer %s (len %zu)", g_fault_addr, w, side ? B[i].len : 0);
}

static size_t scripted_cb(void *ud, unsigned char *buf, size_t size)
{
    uint64_t *s = (uint64_t *)ud; size_t i, n = size;
    if ((*s & 7) == 3) n = size / 2;            /* some short deliveries */
    for (i = 0; i < n; ++i) buf[i] = (uint8_t)splitmix64(s);
    return n;
}

enum { A_AEAD, A_HASH, A_HASHINC, A_HMAC, A_HMACINC, A_HKDF, A_HKDFINC, A_PBKDF2, A_PRNG, A_CLEAN, A_FREE, A_SHORT, A_N };
static const char *const API_NAME[A_N] = {"aead/siv", "tinyjambu_hash", "hash-incremental", "tinyjambu_hmac", "hmac-incremental", "tinyjambu_hkdf",
                                          "hkdf-incremental", "tinyjambu_pbkdf2", "prng", "tinyjambu_clean", "free", "decrypt-short-input"};

/* One execution of one API case.  Everything that the caller can observe goes into *res. */
static void run_api(int api, const size_t p[5], long idx, int pass, res_t *res)
{
    rng_t r = rng_for(0xC06, (uint64_t)api, (uint64_t)idx);     /* inputs identical in both passes */
    uint8_t junk = pass ? 0xA7 : 0x00;
    int nullmode = (int)((idx >> 1) & 1);
    res->h[0] = 1; res->h[1] = 2;
    paint_stack(junk);
    switch (api) {
    case A_AEAD: {
        int v = (int)p[0], alias = (int)p[3];
        size_t adlen = p[1], mlen = p[2], clen = 0, mlen2 = 0;
        uint8_t *k = IN(0, (size_t)AE[v].ks, idx, &r, 0), *n = IN(1, 12, idx, &r, 0), *ad = IN(2, adlen, idx, &r, nullmode), *m, *c, *m2;
        int rc;
        g_api = AE[v].name;
        if (alias == 1) {               /* encrypt in place: one buffer of mlen + 8, message at its start */
            c = OUT(4, mlen + 8, idx, junk, 0); VG_DEF(c, mlen); MSAN_UNPOISON(c, mlen);
            fill_class(&r, c, mlen, (int)(idx % BC_N)); m = c; ++n_inplace;
        } else {
            m = IN(3, mlen, idx, &r, nullmode);
            c = OUT(4, mlen + 8, idx, junk, 0);
        }
        if (GUARD_TRY()) { AE[v].e(c, &clen, m, mlen, ad, adlen, n, k); GUARD_END(); } else { report_fault(); break; }
        ++n_calls;
        must_be_defined(c, mlen + 8, "ciphertext||tag"); res_add(res, c, mlen + 8); res_add(res, &clen, sizeof clen); n_out_bytes += mlen + 8;
        check_canaries();
        /* decrypt: exactly clen - 8 bytes of output (or in place inside the packet buffer) */
        if (alias == 2) { m2 = c; ++n_inplace; }
        else { gb_readonly(&B[4]); m2 = OUT(5, mlen, idx, junk, nullmode); }
        if (GUARD_TRY()) { rc = AE[v].d(m2, &mlen2, c, mlen + 8, ad, adlen, n, k); GUARD_END(); } else { gb_writable(&B[4]); report_fault(); break; }
        gb_writable(&B[4]);
        ++n_calls;
        must_be_defined(m2, mlen, "plaintext"); n_out_bytes += mlen;
        res_add(res, m2, mlen); res_add(res, &rc, sizeof rc); res_add(res, &mlen2, sizeof mlen2);
        check_canaries();
        /* a rejected packet as well (same tamper in both passes): the wipe loop runs over the exact output range */
        if ((idx % 3) == 0 && alias != 2) {
            c[(size_t)(idx / 3) % (mlen + 8)] ^= 0x10;
            gb_readonly(&B[4]);
            m2 = OUT(5, mlen, idx + 1, junk, nullmode);
            if (GUARD_TRY()) { rc = AE[v].d(m2, &mlen2, c, mlen + 8, ad, adlen, n, k); GUARD_END(); } else { gb_writable(&B[4]); report_fault(); break; }
            gb_writable(&B[4]);
            ++n_calls;
            must_be_defined(m2, mlen, "plaintext region after rejection"); res_add(res, m2, mlen); res_add(res, &rc, sizeof rc);
        }
        check_canaries();
        break; }
    case A_SHORT: {
        int v = (int)p[0];
        size_t cl = p[1], ml = 0x77, i2;
        uint8_t *k = IN(0, (size_t)AE[v].ks, idx, &r, 0), *n = IN(1, 12, idx, &r, 0), *c, *m2;
        int rc;
        g_api = AE[v].name;
        /* the short input starts right after a guard page in one pass and ends right before one in the other */
        c = gb_place(&B[3], cl, pass ? PL_END : PL_START, 0, nullmode, 0x42);
        if (cl) gb_readonly(&B[3]);
        m2 = OUT(5, 8, idx, junk, 0);
        if (GUARD_TRY()) { rc = AE[v].d(m2, &ml, c, cl, NULL, 0, n, k); GUARD_END(); } else { report_fault(); break; }
        ++n_calls;
        res_add(res, &rc, sizeof rc);
        if (rc >= 0) { char key[96]; snprintf(key, sizeof key, "short-input-accepted:%s", AE[v].name); emit_viol(key, "clen=%zu returned %d", cl, rc); }
        VG_DEF(m2, 8); MSAN_UNPOISON(m2, 8);
        for (i2 = 0; i2 < 8; ++i2) if (m2[i2] != junk) { char key[96]; snprintf(key, sizeof key, "short-input-wrote-plaintext:%s", AE[v].name); emit_viol(key, "clen=%zu wrote to the plaintext buffer", cl); break; }
        check_canaries();
        break; }
    case A_HASH: {
        uint8_t *in = IN(0, p[0], idx, &r, nullmode), *out = OUT(4, 32, idx, junk, 0);
        g_api = "tinyjambu_hash";
        if (GUARD_TRY()) { tinyjambu_hash(out, in, p[0]); GUARD_END(); } else { report_fault(); break; }
        ++n_calls; must_be_defined(out, 32, "digest"); res_add(res, out, 32); n_out_bytes += 32; check_canaries();
        break; }
    case A_HASHINC: {
        tinyjambu_hash_state_t *st = (tinyjambu_hash_state_t *)STATE(7, sizeof *st, junk);
        uint8_t *in = IN(0, p[0], idx, &r, nullmode), *out = OUT(4, 32, idx, junk, 0);
        size_t pos = 0, chunk = p[1] ? p[1] : 1;
        g_api = "hash-incremental";
        if (GUARD_TRY()) {
            tinyjambu_hash_init(st);
            while (pos < p[0]) { size_t n = p[0] - pos < chunk ? p[0] - pos : chunk; tinyjambu_hash_update(st, in + pos, n); pos += n; chunk = chunk * 2 + 1; if (chunk > 40) chunk = p[1] ? p[1] : 1; }
            if (!p[0]) tinyjambu_hash_update(st, in, 0);
            tinyjambu_hash_finalize(st, out);
            GUARD_END();
        } else { report_fault(); break; }
        n_calls += 3; must_be_defined(out, 32, "digest"); res_add(res, out, 32); n_out_bytes += 32;
        if (GUARD_TRY()) { tinyjambu_hash_free(st); GUARD_END(); } else { report_fault(); break; }
        must_be_defined(st, sizeof *st, "freed state"); res_add(res, st, sizeof *st);
        check_canaries();
        break; }
    case A_HMAC: {
        uint8_t *key = IN(0, p[0], idx, &r, nullmode), *in = IN(1, p[1], idx, &r, nullmode), *out = OUT(4, 32, idx, junk, 0);
        g_api = "tinyjambu_hmac";
        if (GUARD_TRY()) { tinyjambu_hmac(out, key, p[0], in, p[1]); GUARD_END(); } else { report_fault(); break; }
        ++n_calls; must_be_defined(out, 32, "mac"); res_add(res, out, 32); n_out_bytes += 32; check_canaries();
        break; }
    case A_HMACINC: {
        tinyjambu_hmac_state_t *st = (tinyjambu_hmac_state_t *)STATE(7, sizeof *st, junk);
        uint8_t *key = IN(0, p[0], idx, &r, nullmode), *in = IN(1, p[1], idx, &r, nullmode), *out = OUT(4, 32, idx, junk, 0);
        size_t half = p[1] / 2;
        g_api = "hmac-incremental";
        if (GUARD_TRY()) {
            tinyjambu_hmac_init(st, key, p[0]);
            tinyjambu_hmac_update(st, in, half); tinyjambu_hmac_update(st, in + half, p[1] - half);
            tinyjambu_hmac_finalize(st, key, p[0], out);
            must_be_defined(out, 32, "mac"); res_add(res, out, 32);
            tinyjambu_hmac_reinit(st, key, p[0]); tinyjambu_hmac_update(st, in, p[1]); tinyjambu_hmac_finalize(st, key, p[0], out);
            tinyjambu_hmac_free(st);
            GUARD_END();
        } else { report_fault(); break; }
        n_calls += 8; must_be_defined(out, 32, "mac"); res_add(res, out, 32); res_add(res, st, sizeof *st); n_out_bytes += 64; check_canaries();
        break; }
    case A_HKDF: {
        size_t outlen = p[0], have = outlen > 8160 ? 64 : outlen;
        uint8_t *key = IN(0, p[1], idx, &r, nullmode), *salt = IN(1, p[2], idx, &r, nullmode), *info = IN(2, p[3], idx, &r, nullmode);
        uint8_t *out = OUT(4, have, idx, junk, nullmode && outlen <= 8160);
        int rc;
        g_api = "tinyjambu_hkdf";
        if (GUARD_TRY()) { rc = tinyjambu_hkdf(out, outlen, key, p[1], salt, p[2], info, p[3]); GUARD_END(); } else { report_fault(); break; }
        ++n_calls; res_add(res, &rc, sizeof rc);
        if (outlen <= 8160) { must_be_defined(out, outlen, "okm"); res_add(res, out, outlen); n_out_bytes += outlen; }
        else { size_t i; VG_DEF(out, have); MSAN_UNPOISON(out, have); for (i = 0; i < have; ++i) if (out[i] != junk) { emit_viol("wrote-on-refusal:tinyjambu_hkdf", "refused request (outlen=%zu) wrote to the output buffer", outlen); break; } }
        check_canaries();
        break; }
    case A_HKDFINC: {
        tinyjambu_hkdf_state_t *st = (tinyjambu_hkdf_state_t *)STATE(7, sizeof *st, junk);
        uint8_t *key = IN(0, p[1], idx, &r, nullmode), *salt = IN(1, p[2], idx, &r, nullmode), *info = IN(2, p[3], idx, &r, nullmode);
        size_t total = p[0], done = 0, step = p[4] ? p[4] : 1 + idx % 97;
        g_api = "hkdf-incremental";
        if (GUARD_TRY()) { tinyjambu_hkdf_extract(st, key, p[1], salt, p[2]); GUARD_END(); } else { report_fault(); break; }
        while (done < total) {
            size_t n = total - done < step ? total - done : step;
            uint8_t *out = OUT(4, n, idx + (long)done, junk, 0);
            int rc;
            if (GUARD_TRY()) { rc = tinyjambu_hkdf_expand(st, info, p[3], out, n); GUARD_END(); } else { report_fault(); done = total; break; }
            ++n_calls; must_be_defined(out, n, "okm"); res_add(res, out, n); res_add(res, &rc, sizeof rc); n_out_bytes += n;
            check_canaries();
            done += n;
            if (!p[4]) { step = step * 3 + 7; if (step > 3000) step = 1 + (step % 61); }
            else if (p[4] == 64 && done >= 64) step = 1;          /* 64 then single bytes */
        }
        if (GUARD_TRY()) { tinyjambu_hkdf_free(st); GUARD_END(); } else { report_fault(); break; }
        must_be_defined(st, sizeof *st, "freed state"); res_add(res, st, sizeof *st);
        break; }
    case A_PBKDF2: {
        uint8_t *pw = IN(0, p[1], idx, &r, nullmode), *salt = IN(1, p[2], idx, &r, nullmode), *out = OUT(4, p[0], idx, junk, nullmode);
        g_api = "tinyjambu_pbkdf2";
        if (GUARD_TRY()) { tinyjambu_pbkdf2(out, p[0], pw, p[1], salt, p[2], (unsigned long)p[3]); GUARD_END(); } else { report_fault(); break; }
        ++n_calls; must_be_defined(out, p[0], "derived key"); res_add(res, out, p[0]); n_out_bytes += p[0]; check_canaries();
        break; }
    case A_PRNG: {
        tinyjambu_prng_state_t *st = (tinyjambu_prng_state_t *)STATE(7, sizeof *st, junk);
        uint8_t *custom = IN(0, p[1], idx, &r, nullmode), *feed = IN(1, p[2], idx, &r, nullmode), *out;
        uint64_t es = 0x1234 + (uint64_t)idx;
        int rc;
        g_api = "prng";
        if (GUARD_TRY()) { rc = tinyjambu_prng_init_user(st, scripted_cb, &es, custom, p[1]); GUARD_END(); } else { report_fault(); break; }
        res_add(res, &rc, sizeof rc);
        if (p[3]) tinyjambu_prng_set_reseed_limit(st, p[3]);
        out = OUT(4, p[0], idx, junk, nullmode);
        if (GUARD_TRY()) { tinyjambu_prng_generate(st, out, p[0]); GUARD_END(); } else { report_fault(); break; }
        must_be_defined(out, p[0], "random bytes"); res_add(res, out, p[0]); n_out_bytes += p[0]; check_canaries();
        if (GUARD_TRY()) { tinyjambu_prng_feed(st, feed, p[2]); rc = tinyjambu_prng_reseed(st); GUARD_END(); } else { report_fault(); break; }
        res_add(res, &rc, sizeof rc);
        out = OUT(5, 33, idx, junk, 0);
        if (GUARD_TRY()) { tinyjambu_prng_generate(st, out, 33); tinyjambu_prng_free(st); GUARD_END(); } else { report_fault(); break; }
        n_calls += 7; must_be_defined(out, 33, "random bytes"); res_add(res, out, 33); must_be_defined(st, sizeof *st, "freed state"); res_add(res, st, sizeof *st);
        check_canaries();
        break; }
    case A_CLEAN: {
        uint8_t *buf = OUT(4, p[0], idx, junk ? junk : 0x11, nullmode);
        g_api = "tinyjambu_clean";
        VG_DEF(buf, p[0]); MSAN_UNPOISON(buf, p[0]);
        if (GUARD_TRY()) { tinyjambu_clean(buf, (unsigned)p[0]); GUARD_END(); } else { report_fault(); break; }
        ++n_calls; res_add(res, buf, p[0]); check_canaries();
        break; }
    default: {
        /* free functions on state objects that were never initialised (arbitrary contents) */
        void *s0 = STATE(7, sizeof(tinyjambu_hash_state_t), junk); size_t z = sizeof(tinyjambu_hash_state_t);
        int which = (int)(p[0] % 4);
        g_api = "free";
        if (which == 1) { s0 = STATE(7, sizeof(tinyjambu_hmac_state_t), junk); z = sizeof(tinyjambu_hmac_state_t); }
        if (which == 2) { s0 = STATE(7, sizeof(tinyjambu_hkdf_state_t), junk); z = sizeof(tinyjambu_hkdf_state_t); }
        if (which == 3) { s0 = STATE(7, sizeof(tinyjambu_prng_state_t), junk); z = sizeof(tinyjambu_prng_state_t); }
        if (GUARD_TRY()) {
            if (which == 0) tinyjambu_hash_free((tinyjambu_hash_state_t *)s0); else if (which == 1) tinyjambu_hmac_free((tinyjambu_hmac_state_t *)s0);
            else if (which == 2) tinyjambu_hkdf_free((tinyjambu_hkdf_state_t *)s0); else tinyjambu_prng_free((tinyjambu_prng_state_t *)s0);
            GUARD_END();
        } else { report_fault(); break; }
        ++n_calls; must_be_defined(s0, z, "freed state"); res_add(res, s0, z);
        break; }
    }
    release_inputs();
}

static void do_case(const args_t *a, int api, long idx, size_t p0, size_t p1, size_t p2, size_t p3, size_t p4)
{
    size_t p[5] = {p0, p1, p2, p3, p4};
    res_t r0, r1;
    set_case("{\"h\":\"mem\",\"api\":\"%s\",\"i\":%ld,\"p\":[%zu,%zu,%zu,%zu,%zu]}", api == A_AEAD ? AE[p0].name : API_NAME[api], idx, p0, p1, p2, p3, p4);
    ++n_eval;
    cls_add(mix64(mix64((uint64_t)api, p0 * 1000003 + p1), mix64(p2 * 7919 + p3, (uint64_t)(idx % 3))));
    if (idx % 1999 == 0 || a->only >= 0) emit_sample();
    run_api(api, p, idx, 0, &r0);
    run_api(api, p, idx, 1, &r1);
    ++n_pairs;
    if (memcmp(&r0, &r1, sizeof r0)) {
        char key[96];
        snprintf(key, sizeof key, "junk-dependent-output:%s", api == A_AEAD ? AE[p0].name : API_NAME[api]);
        emit_viol(key, "two executions with identical inputs but different junk in output buffers / state objects / dead stack produced different results");
    }
}

int main(int argc, char **argv)
{
    args_t a = parse_args(argc, argv);
    long idx = 0, i, j, k;
    long W = a.p1 > 0 ? a.p1 : 16;
    int all = !strcmp(a.mode, "all");
    install_crash_handlers();
    for (i = 0; i < NB; ++i) gb_init(&B[i], ROLE[i], 1 << 14);
#define WANT(m) (all || !strcmp(a.mode, m))
    if (WANT("aead"))
        for (i = 0; i < 6; ++i) for (j = 0; j <= W; ++j) for (k = 0; k <= W; ++k, ++idx)
            if (mine(&a, idx)) do_case(&a, A_AEAD, idx, (size_t)i, (size_t)j, (size_t)k, (size_t)(idx % 3), 0);
    if (WANT("hash")) {
        for (i = 0; i <= (a.thorough ? 300 : 120); ++i, ++idx) if (mine(&a, idx)) do_case(&a, A_HASH, idx, (size_t)i, 0, 0, 0, 0);
        for (i = 0; i <= (a.thorough ? 200 : 70); ++i) for (j = 1; j <= 17; j += (a.thorough ? 1 : 4), ++idx) if (mine(&a, idx)) do_case(&a, A_HASHINC, idx, (size_t)i, (size_t)j, 0, 0, 0);
    }
    if (WANT("hmac")) {
        static const size_t ML[] = {0, 1, 15, 16, 17, 63, 64, 65, 200};
        for (i = 0; i <= 200; i += (a.thorough ? 1 : 3)) for (j = 0; j < 9; ++j, ++idx) if (mine(&a, idx)) do_case(&a, (i + j) % 2 ? A_HMACINC : A_HMAC, idx, (size_t)i, ML[j], 0, 0, 0);
        for (i = 60; i <= 68; ++i) for (j = 0; j < 9; ++j, ++idx) if (mine(&a, idx)) do_case(&a, j % 2 ? A_HMAC : A_HMACINC, idx, (size_t)i, ML[j], 0, 0, 0);
    }
    if (WANT("hkdf")) {
        static const size_t L[] = {0, 1, 31, 32, 33, 64, 65, 100};
        for (i = 0; i <= 200; i += (a.thorough ? 1 : 3), ++idx) if (mine(&a, idx)) do_case(&a, A_HKDF, idx, (size_t)i, L[i % 8], L[(i / 8) % 8], L[(i / 3) % 8], 0);
        for (i = 32; i <= 8160; i += 32 * (a.thorough ? 1 : 9)) for (j = -1; j <= 1; ++j, ++idx) if (mine(&a, idx)) do_case(&a, A_HKDF, idx, (size_t)(i + j), L[i / 32 % 8], L[idx % 8], L[(idx / 8) % 8], 0);
        for (i = 0; i < 6; ++i, ++idx) { static const size_t BG[] = {8159, 8160, 8161, 8192, 65536, (size_t)-1}; if (mine(&a, idx)) do_case(&a, A_HKDF, idx, BG[i], 16, 16, 5, 0); }
        for (i = 0; i < (a.thorough ? 40 : 8); ++i, ++idx) { static const size_t T[] = {8160, 8161, 8200, 9000, 100, 1000, 8159, 33}; if (mine(&a, idx)) do_case(&a, A_HKDFINC, idx, T[i % 8], L[i % 8], L[(i + 3) % 8], L[(i + 5) % 8], 0); }
    }
    if (WANT("hkdf")) {        /* expand calls that END on a 32-byte block boundary, followed by further calls */
        static const size_t L[] = {0, 1, 31, 32, 33, 64, 65, 100};
        for (i = 0; i < 12; ++i, ++idx) { static const size_t T[] = {64, 96, 128, 65, 70, 160}; static const size_t ST[] = {32, 64};
            if (mine(&a, idx)) do_case(&a, A_HKDFINC, idx, T[i % 6], L[i % 8], L[(i + 2) % 8], L[(i + 4) % 8], ST[i / 6]); }
    }
    if (WANT("aead")) {        /* inputs shorter than the tag: nothing outside [c, c+clen) may be touched, nothing written */
        for (i = 0; i < 6; ++i) for (j = 0; j < 8; ++j, ++idx) if (mine(&a, idx)) do_case(&a, A_SHORT, idx, (size_t)i, (size_t)j, 0, 0, 0);
    }
    if (WANT("pbkdf2")) {
        for (i = 41; i <= 80; i += (a.thorough ? 1 : 3), ++idx) if (mine(&a, idx)) do_case(&a, A_PBKDF2, idx, 40, (size_t)(i % 9), (size_t)i, 2, 0);   /* long salts */
        for (i = 0; i <= 100; i += (a.thorough ? 1 : 2), ++idx) if (mine(&a, idx)) do_case(&a, A_PBKDF2, idx, (size_t)i, (size_t)((i * 13) % 130), (size_t)((i * 7) % 41), (size_t)(i % 4), 0);
        if (mine(&a, idx)) do_case(&a, A_PBKDF2, idx, 8190, 70, 9, 1, 0);
        ++idx;
    }
    if (WANT("prng")) {
        for (i = 0; i <= 100; i += (a.thorough ? 1 : 2), ++idx) if (mine(&a, idx)) do_case(&a, A_PRNG, idx, (size_t)i, (size_t)(i % 70), (size_t)((i * 3) % 101), (size_t)(i % 5 == 0 ? 33 : 0), 0);
        if (mine(&a, idx)) do_case(&a, A_PRNG, idx, 1000, 10, 100, 0, 0);
        ++idx;
        if (mine(&a, idx)) do_case(&a, A_PRNG, idx, 5000, 0, 0, 64, 0);
        ++idx;
    }
    if (WANT("clean")) {
        for (i = 0; i <= 300; i += (a.thorough ? 1 : 2), ++idx) if (mine(&a, idx)) do_case(&a, A_CLEAN, idx, (size_t)i, 0, 0, 0, 0);
        for (i = 0; i < 8; ++i, ++idx) if (mine(&a, idx)) do_case(&a, A_FREE, idx, (size_t)i, 0, 0, 0, 0);
    }
    /* large sizes against the guard page: a long-input fast path or a wrapped counter cannot hide behind the window */
    for (i = 0; i < a.p3; ++i, ++idx) {
        size_t big = (i & 1 ? ((size_t)1 << 20) : 65536) + (size_t)(i % 4);
        if (!mine(&a, idx)) continue;
        ++n_large;
        switch (i % 7) {
        case 0: case 1: case 2: do_case(&a, A_AEAD, idx, (size_t)(i % 6), (size_t)(i % 4 + 1), big, (size_t)(i % 3), 0); break;
        case 3: do_case(&a, A_HASH, idx, big, 0, 0, 0, 0); break;
        case 4: do_case(&a, A_HMAC, idx, 65 + (size_t)i, big, 0, 0, 0); break;
        case 5: do_case(&a, A_CLEAN, idx, big, 0, 0, 0, 0); break;
        default: do_case(&a, A_PRNG, idx, big > 200000 ? 200000 + (size_t)(i % 4) : big, 5, 5, 0, 0); break;
        }
    }
    emit_stat("evaluations", n_eval); emit_stat("library_calls", n_calls); emit_stat("junk_differential_pairs", n_pairs);
    emit_stat("output_bytes_inspected", n_out_bytes); emit_stat("definedness_assertions", n_defined_checks);
    emit_stat("input_end_guard_placements", n_end); emit_stat("input_start_guard_placements", n_start); emit_stat("input_mid_canary_placements", n_mid);
    emit_stat("null_zero_length_inputs", n_null); emit_stat("inplace_calls", n_inplace); emit_stat("large_size_cases", n_large);
    finish();
    return 0;
}
