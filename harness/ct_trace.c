/*
 * Constant-time monitor B for C07: trace equivalence on concrete executions.
 *
 * usage: ct_trace <shape>     (reads 256 secret bytes from ./secret.bin; prints nothing that depends on them)
 * The engine runs this binary under `setarch -R valgrind --tool=lackey --trace-mem=yes` once per secret file
 * (identical size, identical argv, different directory) and requires the complete instruction-address and
 * data-address trace to be IDENTICAL across secrets for the same shape - the property's definition, checked directly.
 * Shape -1 is the positive control (an early-exit compare on the secret): its traces MUST differ.
 * `ct_trace count` prints the number of shapes.
 */
#include <stdio.h>
#include <stdlib.h>
#include <string.h>
#include "TinyJAMBU.h"

typedef void (*enc_fn)(unsigned char *, size_t *, const unsigned char *, size_t, const unsigned char *, size_t, const unsigned char *, const unsigned char *);
typedef int (*dec_fn)(unsigned char *, size_t *, const unsigned char *, size_t, const unsigned char *, size_t, const unsigned char *, const unsigned char *);
static const struct { enc_fn e; dec_fn d; } AE[6] = {
    {tinyjambu_128_aead_encrypt, tinyjambu_128_aead_decrypt}, {tinyjambu_192_aead_encrypt, tinyjambu_192_aead_decrypt},
    {tinyjambu_256_aead_encrypt, tinyjambu_256_aead_decrypt}, {tinyjambu_128_siv_encrypt, tinyjambu_128_siv_decrypt},
    {tinyjambu_192_siv_encrypt, tinyjambu_192_siv_decrypt}, {tinyjambu_256_siv_encrypt, tinyjambu_256_siv_decrypt}};

static unsigned char S[256];
static volatile int sink;

typedef struct { const unsigned char *p; size_t pos; int short_first; } ent_t;
static size_t ent_cb(void *ud, unsigned char *buf, size_t size)
{
    ent_t *e = (ent_t *)ud;
    size_t n = size, i;
    if (e->short_first && e->pos == 0) n = 7;
    for (i = 0; i < n; ++i) buf[i] = e->p[(e->pos + i) & 255];
    e->pos += n;
    return n;
}
__attribute__((noinline)) static int leaky(const volatile unsigned char *a, size_t n)
{
    size_t i;
    for (i = 0; i < n; ++i) if (a[i] & 1) return (int)i;
    return -1;
}

#define NAEAD (6 * 3 * 4)
static const size_t LENS[3][2] = {{0, 0}, {3, 5}, {8, 17}};

static int nshapes(void) { return NAEAD + 4 + 10 + 3 + 3 + 3; }

static void run_shape(int sh)
{
    static unsigned char nonce[12] = {1, 2, 3, 4, 5, 6, 7, 8, 9, 10, 11, 12}, ad[16] = "public-ad-bytes", c[64], m2[64], out[8200];
    if (sh < 0) { sink = leaky(S, 64); return; }
    if (sh < NAEAD) {
        int v = sh / 12, l = (sh / 4) % 3, verdict = sh % 4;
        size_t adlen = LENS[l][0], mlen = LENS[l][1], clen = 0, ml = 0;
        /* key = S[0..31], plaintext = S[32..] : both secret */
        AE[v].e(c, &clen, S + 32, mlen, ad, adlen, nonce, S);
        if (verdict == 1) c[mlen] ^= 0x10;
        if (verdict == 2) c[mlen + 7] ^= 0x80;
        if (verdict == 3) { if (mlen) c[mlen / 2] ^= 1; else c[mlen + 3] ^= 2; }
        sink = AE[v].d(m2, &ml, c, clen, ad, adlen, nonce, S);       /* verdict is public and fixed per shape */
        return;
    }
    sh -= NAEAD;
    if (sh < 4) {
        static const size_t HL[4] = {0, 15, 16, 100};
        tinyjambu_hash_state_t st;
        tinyjambu_hash(out, S, HL[sh]);
        tinyjambu_hash_init(&st); tinyjambu_hash_update(&st, S, HL[sh] / 3); tinyjambu_hash_update(&st, S + HL[sh] / 3, HL[sh] - HL[sh] / 3);
        tinyjambu_hash_finalize(&st, out); tinyjambu_hash_free(&st);
        return;
    }
    sh -= 4;
    if (sh < 10) {
        static const size_t KL[5] = {0, 32, 64, 65, 100};
        tinyjambu_hmac_state_t st;
        size_t kl = KL[sh / 2];
        if (sh % 2 == 0) tinyjambu_hmac(out, S, kl, S + 128, 50);
        else { tinyjambu_hmac_init(&st, S, kl); tinyjambu_hmac_update(&st, S + 128, 13); tinyjambu_hmac_update(&st, S + 141, 37); tinyjambu_hmac_finalize(&st, S, kl, out); tinyjambu_hmac_free(&st); }
        return;
    }
    sh -= 10;
    if (sh < 3) {
        static const size_t OL[3] = {33, 100, 8160};
        tinyjambu_hkdf_state_t st;
        tinyjambu_hkdf(out, OL[sh], S, 40, ad, 16, nonce, 12);
        tinyjambu_hkdf_extract(&st, S, 40, ad, 16); tinyjambu_hkdf_expand(&st, nonce, 12, out, 20); tinyjambu_hkdf_expand(&st, nonce, 12, out, 50); tinyjambu_hkdf_free(&st);
        return;
    }
    sh -= 3;
    if (sh < 3) {
        static const unsigned long CN[3] = {1, 3, 10};
        tinyjambu_pbkdf2(out, 33 + (size_t)sh, S, sh == 1 ? 70 : 9, ad, 16, CN[sh]);
        return;
    }
    sh -= 3;
    {
        tinyjambu_prng_state_t st;
        ent_t e = {S, 0, sh == 1};
        sink = tinyjambu_prng_init_user(&st, ent_cb, &e, ad, 10);
        tinyjambu_prng_generate(&st, out, sh == 2 ? 1100 : 100);
        tinyjambu_prng_feed(&st, S + 200, 20);
        sink += tinyjambu_prng_reseed(&st);
        tinyjambu_prng_set_reseed_limit(&st, 64);
        tinyjambu_prng_generate(&st, out, 200);
        tinyjambu_prng_free(&st);
    }
}

/* markers: the engine compares only the part of the trace between these two calls (process start-up contains
 * a few kernel-randomised stack reads that have nothing to do with the secret) */
__attribute__((noinline)) void ct_marker_begin(void) { __asm__ volatile("" ::: "memory"); }
__attribute__((noinline)) void ct_marker_end(void) { __asm__ volatile("" ::: "memory"); }

int main(int argc, char **argv)
{
    FILE *f;
    if (argc < 2) return 2;
    if (!strcmp(argv[1], "count")) { printf("%d\n", nshapes()); return 0; }
    f = fopen("secret.bin", "rb");
    if (!f || fread(S, 1, 256, f) != 256) return 2;
    fclose(f);
    ct_marker_begin();
    run_shape(atoi(argv[1]));
    ct_marker_end();
    return 0;
}
