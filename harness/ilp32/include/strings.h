#ifndef VERIF_ILP32_STRINGS_H
#define VERIF_ILP32_STRINGS_H
#include <string.h>
#endif
