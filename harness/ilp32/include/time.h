#ifndef VERIF_ILP32_TIME_H
#define VERIF_ILP32_TIME_H
typedef long time_t;
#endif
