#ifndef VERIF_ILP32_FCNTL_H
#define VERIF_ILP32_FCNTL_H
#define O_RDONLY 0
int open(const char *path, int flags, ...);
#endif
