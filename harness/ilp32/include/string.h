/* Minimal <string.h> for the freestanding ILP32 build of the library (the sandbox has no 32-bit C library):
 * declarations only, the functions live in harness/ilp32/rt32.c. */
#ifndef VERIF_ILP32_STRING_H
#define VERIF_ILP32_STRING_H
#include <stddef.h>
void *memcpy(void *d, const void *s, size_t n);
void *memmove(void *d, const void *s, size_t n);
void *memset(void *d, int c, size_t n);
int memcmp(const void *a, const void *b, size_t n);
size_t strlen(const char *s);
void explicit_bzero(void *d, size_t n);
#endif
