#ifndef VERIF_ILP32_SYS_SYSCALL_H
#define VERIF_ILP32_SYS_SYSCALL_H
#define SYS_getrandom 355
#endif
