#ifndef VERIF_ILP32_SYS_RANDOM_H
#define VERIF_ILP32_SYS_RANDOM_H
#include <sys/types.h>
ssize_t getrandom(void *buf, size_t n, unsigned flags);
#endif
