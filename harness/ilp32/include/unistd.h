#ifndef VERIF_ILP32_UNISTD_H
#define VERIF_ILP32_UNISTD_H
#include <sys/types.h>
ssize_t read(int fd, void *buf, size_t n);
int close(int fd);
long syscall(long number, ...);
int getentropy(void *buf, size_t n);
#endif
