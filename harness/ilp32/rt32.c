/* Freestanding i386 runtime for the ILP32 build of the library: the sandbox has a 32-bit capable compiler and
 * kernel but no 32-bit C library.  Entry point, raw system calls, the handful of <string.h> functions the library
 * uses, and guard-page allocation.  Compiled with -fno-builtin -fno-tree-loop-distribute-patterns so that the loops
 * below are not turned into calls of themselves. */
#include <stddef.h>
#include <stdint.h>

int errno;
int main(int argc, char **argv);

static long sys3(long nr, long a, long b, long c)
{
    long r;
    __asm__ volatile ("int $0x80" : "=a"(r) : "a"(nr), "b"(a), "c"(b), "d"(c) : "memory");
    return r;
}

void rt_exit(int code) { sys3(1, code, 0, 0); for (;;) { } }
long rt_write(int fd, const void *p, unsigned n) { return sys3(4, fd, (long)p, (long)n); }

/* old_mmap (90) takes a pointer to its six arguments */
void *rt_mmap(unsigned n, int prot)
{
    unsigned long a[6];
    long r;
    a[0] = 0; a[1] = n; a[2] = (unsigned long)prot; a[3] = 0x22 /* MAP_PRIVATE|MAP_ANONYMOUS */; a[4] = (unsigned long)-1; a[5] = 0;
    r = sys3(90, (long)a, 0, 0);
    return (r < 0 && r > -4096) ? (void *)0 : (void *)r;
}
int rt_mprotect(void *p, unsigned n, int prot) { return (int)sys3(125, (long)p, (long)n, prot); }
int rt_munmap(void *p, unsigned n) { return (int)sys3(91, (long)p, (long)n, 0); }

/* the real system call, for the library's getrandom() configuration */
int getrandom(void *buf, size_t n, unsigned flags)
{
    long r = sys3(355, (long)buf, (long)n, (long)flags);
    if (r < 0) { errno = (int)-r; return -1; }
    return (int)r;
}

void *memcpy(void *d, const void *s, size_t n)
{
    unsigned char *dd = (unsigned char *)d; const unsigned char *ss = (const unsigned char *)s;
    while (n--) *dd++ = *ss++;
    return d;
}
void *memmove(void *d, const void *s, size_t n)
{
    unsigned char *dd = (unsigned char *)d; const unsigned char *ss = (const unsigned char *)s;
    if (dd <= ss) { while (n--) *dd++ = *ss++; }
    else { while (n--) dd[n] = ss[n]; }
    return d;
}
void *memset(void *d, int c, size_t n)
{
    unsigned char *dd = (unsigned char *)d;
    while (n--) *dd++ = (unsigned char)c;
    return d;
}
int memcmp(const void *a, const void *b, size_t n)
{
    const unsigned char *x = (const unsigned char *)a, *y = (const unsigned char *)b;
    for (; n--; ++x, ++y) if (*x != *y) return *x < *y ? -1 : 1;
    return 0;
}
size_t strlen(const char *s) { size_t n = 0; while (s[n]) ++n; return n; }
void explicit_bzero(void *d, size_t n)
{
    volatile unsigned char *dd = (volatile unsigned char *)d;
    while (n--) *dd++ = 0;
}

/* 64-bit division helpers (no 32-bit libgcc in the sandbox): plain shift-subtract */
unsigned long long __udivmoddi4(unsigned long long a, unsigned long long b, unsigned long long *rem)
{
    unsigned long long q = 0, r = 0;
    int i;
    for (i = 63; i >= 0; --i) {
        r = (r << 1) | ((a >> i) & 1);
        if (r >= b) { r -= b; q |= 1ULL << i; }
    }
    if (rem) *rem = r;
    return q;
}
unsigned long long __udivdi3(unsigned long long a, unsigned long long b) { return __udivmoddi4(a, b, 0); }
unsigned long long __umoddi3(unsigned long long a, unsigned long long b) { unsigned long long r; __udivmoddi4(a, b, &r); return r; }

void rt_start(unsigned long *sp)
{
    int argc = (int)sp[0];
    char **argv = (char **)(sp + 1);
    rt_exit(main(argc, argv));
}

__asm__(
    ".text\n"
    ".globl _start\n"
    "_start:\n"
    "    xorl %ebp, %ebp\n"
    "    movl %esp, %eax\n"
    "    andl $-16, %esp\n"
    "    subl $12, %esp\n"
    "    pushl %eax\n"
    "    call rt_start\n"
    "    hlt\n");
