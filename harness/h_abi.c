/* h_abi.c - one deterministic case list, two programs, compared line by line by engine/abi.py:
 *
 *   SUBJECT  (-DABI_SUBJECT)  calls the LIBRARY.  Built as a freestanding ILP32 (gcc/clang -m32) static program on top of
 *                             harness/ilp32/rt32.c - 4-byte size_t, pointers, unsigned long - with every buffer
 *                             placed against a PROT_NONE page; also built as an ordinary 64-bit program (control).
 *   ORACLE   (default)        calls the MODEL (model/model.c), ordinary 64-bit program.
 *
 * Both print, for the same (seed, section), one line per observation:  "<case> <section> <what> <params> | <hex>".
 * Any difference between the two outputs is a difference between the ILP32 build of the library and the
 * specification; a missing tail is a crash (the last line names the case).  Nothing here depends on sizeof(size_t):
 * lengths are uint32_t, the generator is 64-bit arithmetic without division.
 *
 * usage: h_abi --section {aead|siv|hash|hmac|hkdf|pbkdf2|prng|clean} [--seed N] [--thorough] [--only CASE]
 */
#include <stddef.h>
#include <stdint.h>
#include <string.h>

#ifdef ABI_SUBJECT
#include "TinyJAMBU.h"
#else
#include "model.h"
#endif

/* ------------------------------------------------------------------ runtime */
#ifdef ABI_FREESTANDING
void rt_exit(int code);
long rt_write(int fd, const void *p, unsigned n);
void *rt_mmap(unsigned n, int prot);
int rt_mprotect(void *p, unsigned n, int prot);
int rt_munmap(void *p, unsigned n);
#else
#include <unistd.h>
#include <stdlib.h>
#include <sys/mman.h>
static void rt_exit(int code) { exit(code); }
static long rt_write(int fd, const void *p, unsigned n) { return (long)write(fd, p, n); }
static void *rt_mmap(unsigned n, int prot) { void *p = mmap(NULL, n, prot, MAP_PRIVATE | MAP_ANONYMOUS, -1, 0); return p == MAP_FAILED ? NULL : p; }
static int rt_mprotect(void *p, unsigned n, int prot) { return mprotect(p, n, prot); }
#endif

static char obuf[1 << 15];
static unsigned opos;
static void oflush(void) { unsigned o = 0; while (o < opos) { long r = rt_write(1, obuf + o, opos - o); if (r <= 0) rt_exit(2); o += (unsigned)r; } opos = 0; }
static void oc(char c) { if (opos == sizeof obuf) oflush(); obuf[opos++] = c; }
static void os(const char *s) { while (*s) oc(*s++); }
static void ou(uint32_t v) { char b[12]; int i = 11; b[i] = 0; do { b[--i] = (char)('0' + v % 10); v /= 10; } while (v); os(b + i); }
static void oi(int v) { if (v < 0) { oc('-'); ou((uint32_t)(-(v + 1)) + 1u); } else ou((uint32_t)v); }
static void ohex(const uint8_t *p, uint32_t n) { static const char H[] = "0123456789abcdef"; uint32_t i; for (i = 0; i < n; ++i) { oc(H[p[i] >> 4]); oc(H[p[i] & 15]); } }
/* long buffers: length, 64-bit FNV-1a of everything, first 24 and last 24 bytes */
static void obuf_sum(const uint8_t *p, uint32_t n)
{
    if (n <= 64) { ohex(p, n); return; }
    { uint64_t h = 0xcbf29ce484222325ULL; uint32_t i; uint8_t hb[8];
      for (i = 0; i < n; ++i) { h ^= p[i]; h *= 0x100000001b3ULL; }
      for (i = 0; i < 8; ++i) hb[i] = (uint8_t)(h >> (56 - 8 * i));
      ohex(p, 24); os(".."); ohex(p + n - 24, 24); os(" fnv="); ohex(hb, 8); }
}
static void kv(const char *k, uint32_t v) { oc(' '); os(k); oc('='); ou(v); }

/* guard-page allocation: the returned region of n bytes ends (end != 0) or begins (end == 0) at a PROT_NONE page */
#define ARENA (1u << 16)
typedef struct { uint8_t *base; } garena_t;
static void ga_init(garena_t *g)
{
    uint8_t *p = (uint8_t *)rt_mmap(ARENA + 2 * 4096, 3);
    if (!p) { os("E mmap failed\n"); oflush(); rt_exit(2); }
    rt_mprotect(p, 4096, 0); rt_mprotect(p + 4096 + ARENA, 4096, 0);
    g->base = p + 4096;
}
static uint8_t *ga_place(garena_t *g, uint32_t n, int end, uint32_t off)
{
    if (n + 16 > ARENA) { os("E arena too small\n"); oflush(); rt_exit(2); }
    (void)off;
    if (end) { uint32_t lo = n + 64 < ARENA ? ARENA - n - 64 : 0; memset(g->base + lo, 0xA7, ARENA - lo); return g->base + ARENA - n; }
    memset(g->base, 0xA7, n + 64 < ARENA ? n + 64 : ARENA);
    return g->base;
}

/* ------------------------------------------------------------------ generator */
typedef struct { uint64_t s; } rng_t;
static uint64_t rnext(rng_t *r) { uint64_t z = (r->s += 0x9E3779B97F4A7C15ULL); z = (z ^ (z >> 30)) * 0xBF58476D1CE4E5B9ULL; z = (z ^ (z >> 27)) * 0x94D049BB133111EBULL; return z ^ (z >> 31); }
static rng_t rfor(uint64_t seed, uint32_t stream, uint32_t idx) { rng_t r; r.s = seed * 0xD1342543DE82EF95ULL + ((uint64_t)stream << 32) + idx; rnext(&r); return r; }
static uint32_t rbelow(rng_t *r, uint32_t n) { return (uint32_t)(((rnext(r) >> 32) * (uint64_t)n) >> 32); }
static void rfill(rng_t *r, uint8_t *p, uint32_t n, int cls)
{
    uint32_t i;
    for (i = 0; i < n; ++i) {
        uint8_t b = (uint8_t)(rnext(r) >> 56);
        p[i] = cls == 0 ? b : cls == 1 ? 0xFF : cls == 2 ? (uint8_t)(b | 0x80) : cls == 3 ? 0x00 : (uint8_t)(0x80 >> (i & 7));
    }
}

static uint64_t g_seed = 1;
static int g_thorough;
static long g_only = -1;
static uint32_t g_case;
static const char *g_sec;
static int take(void) { return g_only < 0 || (long)g_case == g_only; }
static void lhead(const char *what) { ou(g_case); oc(' '); os(g_sec); oc(' '); os(what); }
static void lend(void) { oc('\n'); }

static garena_t A1, A2, A3, A4;

/* ------------------------------------------------------------------ AEAD / SIV */
static const int KS[3] = {16, 24, 32};
#ifdef ABI_SUBJECT
typedef void (*enc_t)(unsigned char *, size_t *, const unsigned char *, size_t, const unsigned char *, size_t, const unsigned char *, const unsigned char *);
typedef int (*dec_t)(unsigned char *, size_t *, const unsigned char *, size_t, const unsigned char *, size_t, const unsigned char *, const unsigned char *);
static const enc_t ENC[6] = {tinyjambu_128_aead_encrypt, tinyjambu_192_aead_encrypt, tinyjambu_256_aead_encrypt,
                             tinyjambu_128_siv_encrypt, tinyjambu_192_siv_encrypt, tinyjambu_256_siv_encrypt};
static const dec_t DEC[6] = {tinyjambu_128_aead_decrypt, tinyjambu_192_aead_decrypt, tinyjambu_256_aead_decrypt,
                             tinyjambu_128_siv_decrypt, tinyjambu_192_siv_decrypt, tinyjambu_256_siv_decrypt};
#endif

/* seal: c (mlen + 8 bytes at the end of arena A1) */
static uint8_t *do_seal(int v, const uint8_t *m, uint32_t mlen, const uint8_t *ad, uint32_t adlen, const uint8_t *n, const uint8_t *k, int inplace, uint32_t *clen_out)
{
    uint8_t *c = ga_place(&A1, mlen + 8, 1, 0);
#ifdef ABI_SUBJECT
    size_t clen = 0x5A5A5A5Au;
    if (inplace) { memcpy(c, m, mlen); ENC[v](c, &clen, c, mlen, ad, adlen, n, k); }
    else ENC[v](c, &clen, m, mlen, ad, adlen, n, k);
    *clen_out = (uint32_t)clen;
#else
    (void)inplace;
    if (v < 3) m_aead_encrypt(KS[v], c, m, mlen, ad, adlen, n, k); else m_siv_encrypt(KS[v - 3], c, m, mlen, ad, adlen, n, k);
    *clen_out = mlen + 8;
#endif
    return c;
}

/* open: prints rc, then (accepted) the plaintext or (rejected) the output buffer's first clen-8 bytes */
static void do_open(int v, const uint8_t *pkt, uint32_t clen, const uint8_t *ad, uint32_t adlen, const uint8_t *n, const uint8_t *k, int inplace)
{
    uint32_t blen = clen >= 8 ? clen - 8 : 0;
    uint8_t *m;
    int rc;
#ifdef ABI_SUBJECT
    size_t mlen = 0;
    if (inplace) { m = ga_place(&A2, clen ? clen : 1, 1, 0); memcpy(m, pkt, clen); rc = DEC[v](m, &mlen, m, clen, ad, adlen, n, k); }
    else { m = ga_place(&A2, blen ? blen : 1, 1, 0); memset(m, 0xEE, blen); rc = DEC[v](m, &mlen, pkt, clen, ad, adlen, n, k); }
    os(" rc="); oi(rc);
    if (rc == 0) kv("mlen", (uint32_t)mlen);
#else
    uint8_t tag[8];
    (void)inplace;
    m = ga_place(&A2, blen ? blen : 1, 1, 0);
    if (clen < 8) rc = -1;
    else {
        if (v < 3) m_aead_open(KS[v], m, tag, pkt, blen, ad, adlen, n, k);
        else m_siv_open(KS[v - 3], m, tag, pkt, blen, pkt + blen, ad, adlen, n, k);
        rc = memcmp(tag, pkt + blen, 8) ? -1 : 0;
        if (rc) memset(m, 0, blen);
    }
    os(" rc="); oi(rc);
    if (rc == 0) kv("mlen", blen);
#endif
    os(" | ");
    if (clen >= 8) obuf_sum(m, blen);
}

static void aead_case(int v, uint32_t adlen, uint32_t mlen)
{
    rng_t r = rfor(g_seed, 0xAE, g_case);
    int cls = (int)(g_case % 5), inplace = (int)((g_case / 5) & 1), t;
    uint8_t *m = ga_place(&A3, mlen ? mlen : 1, 1, 0), *ad = ga_place(&A4, adlen ? adlen : 1, (int)(g_case & 1), 0), k[32], n[12], *c, *pk;
    static uint8_t pkt[ARENA];
    uint32_t clen = 0;
    rfill(&r, m, mlen, cls); rfill(&r, ad, adlen, (cls + 1) % 5); rfill(&r, k, 32, g_case % 7 == 3 ? 1 : 0); rfill(&r, n, 12, 0);
    c = do_seal(v, m, mlen, ad, adlen, n, k, inplace, &clen);
    lhead("seal"); kv("v", (uint32_t)v); kv("adlen", adlen); kv("mlen", mlen); kv("clen", clen); os(" | "); obuf_sum(c, mlen + 8); lend();
    memcpy(pkt, c, mlen + 8);
    /* every packet below is derived from the model-independent copy; pk sits at the end of A1 (guard page behind the tag) */
    lhead("open"); kv("v", (uint32_t)v); pk = ga_place(&A1, mlen + 8, 1, 0); memcpy(pk, pkt, mlen + 8);
    do_open(v, pk, mlen + 8, ad, adlen, n, k, inplace); lend();
    for (t = 0; t < 13; ++t) {
        uint32_t cl = mlen + 8;
        if ((t == 8 && mlen == 0) || (t == 9 && adlen == 0) || (t == 12 && mlen < 2)) continue;
        pk = ga_place(&A1, cl, 1, 0); memcpy(pk, pkt, cl);
        if (t < 8) pk[mlen + (uint32_t)t] ^= (uint8_t)(1u << ((g_case + (uint32_t)t) & 7));       /* each tag byte */
        else if (t == 8) pk[rbelow(&r, mlen)] ^= (uint8_t)(1u << rbelow(&r, 8));                  /* body */
        else if (t == 9) ad[rbelow(&r, adlen)] ^= (uint8_t)(1u << rbelow(&r, 8));                 /* AD (restored below) */
        else if (t == 10) { cl = mlen + 7; pk = ga_place(&A1, cl ? cl : 1, 1, 0); memcpy(pk, pkt, cl); }   /* one byte short */
        else if (t == 11) { cl = g_case % 8; pk = ga_place(&A1, cl ? cl : 1, 1, 0); memcpy(pk, pkt + (mlen + 8 - cl), cl); }   /* shorter than a tag */
        else { pk[mlen + 4] ^= 0x10; pk[mlen + 7] ^= 0x01; }                                       /* upper half of the tag only */
        lhead("tamper"); kv("v", (uint32_t)v); kv("t", (uint32_t)t); kv("clen", cl);
        do_open(v, pk, cl, ad, adlen, n, k, (int)((g_case + (uint32_t)t) & 1)); lend();
        if (t == 9) { rng_t r2 = rfor(g_seed, 0xAE, g_case); rfill(&r2, m, mlen, cls); rfill(&r2, ad, adlen, (cls + 1) % 5); }
    }
}

static void sec_aead(int siv)
{
    static const uint32_t LONGS[][2] = {{5, 100}, {100, 5}, {3, 255}, {0, 256}, {64, 257}, {1000, 1000}, {17, 4099}, {4097, 33}, {0, 65000}, {13, 16385}};
    uint32_t W = g_thorough ? 36 : 18, ad, ml, i;
    int v;
    for (v = siv ? 3 : 0; v < (siv ? 6 : 3); ++v) {
        for (ad = 0; ad <= W; ++ad) for (ml = 0; ml <= W; ++ml, ++g_case) if (take()) aead_case(v, ad, ml);
        for (i = 0; i < 10; ++i, ++g_case) if (take()) aead_case(v, LONGS[i][0], LONGS[i][1]);
    }
}

/* ------------------------------------------------------------------ hash / HMAC */
static void hash_case(uint32_t len)
{
    static const uint32_t CH[] = {0, 1, 5, 16, 17, 64};
    rng_t r = rfor(g_seed, 0x4A, g_case);
    uint8_t *in = ga_place(&A3, len ? len : 1, (int)(g_case & 1) ^ 1, 0), *out = ga_place(&A2, 32, 1, 0);
    int ci;
    rfill(&r, in, len, (int)(g_case % 5));
    for (ci = 0; ci < 6; ++ci) {
#ifdef ABI_SUBJECT
        if (CH[ci] == 0) tinyjambu_hash(out, len ? in : (g_case & 2 ? NULL : in), len);
        else {
            tinyjambu_hash_state_t st;
            uint32_t pos = 0;
            memset(&st, 0xC3, sizeof st);
            tinyjambu_hash_init(&st);
            if (ci == 5) { tinyjambu_hash_update(&st, in, len > 3 ? 3 : len); tinyjambu_hash_reinit(&st); }      /* abandoned prefix, then reinit */
            while (pos < len) { uint32_t n = len - pos < CH[ci] ? len - pos : CH[ci]; tinyjambu_hash_update(&st, in + pos, n); pos += n; }
            tinyjambu_hash_finalize(&st, out);
            tinyjambu_hash_free(&st);
        }
#else
        m_hash(out, in, len);
#endif
        lhead("digest"); kv("len", len); kv("chunk", CH[ci]); os(" | "); ohex(out, 32); lend();
    }
}
static void sec_hash(void)
{
    static const uint32_t LONGS[] = {255, 256, 257, 1023, 1024, 1025, 4095, 4096, 4097, 65519};
    uint32_t N = g_thorough ? 600 : 160, i;
    for (i = 0; i <= N; ++i, ++g_case) if (take()) hash_case(i);
    for (i = 0; i < 10; ++i, ++g_case) if (take()) hash_case(LONGS[i]);
}

static void hmac_case(uint32_t kl, uint32_t ml)
{
    rng_t r = rfor(g_seed, 0x4B, g_case);
    uint8_t *key = ga_place(&A4, kl ? kl : 1, 1, 0), *in = ga_place(&A3, ml ? ml : 1, 1, 0), *out = ga_place(&A2, 32, 1, 0);
    int mode;
    rfill(&r, key, kl, (int)(g_case % 5)); rfill(&r, in, ml, (int)((g_case + 2) % 5));
    for (mode = 0; mode < 3; ++mode) {
#ifdef ABI_SUBJECT
        if (mode == 0) tinyjambu_hmac(out, key, kl, in, ml);
        else {
            tinyjambu_hmac_state_t st;
            uint32_t pos = 0, step = mode == 1 ? 7 : 64;
            memset(&st, 0x3C, sizeof st);
            tinyjambu_hmac_init(&st, key, kl);
            if (mode == 2) { tinyjambu_hmac_update(&st, in, ml > 5 ? 5 : ml); tinyjambu_hmac_reinit(&st, key, kl); }
            while (pos < ml) { uint32_t n = ml - pos < step ? ml - pos : step; tinyjambu_hmac_update(&st, in + pos, n); pos += n; }
            tinyjambu_hmac_finalize(&st, key, kl, out);
            tinyjambu_hmac_free(&st);
        }
#else
        m_hmac(out, key, kl, in, ml);
#endif
        lhead("mac"); kv("keylen", kl); kv("mlen", ml); kv("mode", (uint32_t)mode); os(" | "); ohex(out, 32); lend();
    }
}
static void sec_hmac(void)
{
    static const uint32_t ML[] = {0, 1, 15, 16, 17, 63, 64, 65, 127, 200, 1000};
    uint32_t K = g_thorough ? 200 : 80, i, j;
    for (i = 0; i <= K; ++i) for (j = 0; j < 11; ++j) { if ((i + j) % (g_thorough ? 1 : 3) == 0) { if (take()) hmac_case(i, ML[j]); } ++g_case; }
    for (i = 0; i < 6; ++i, ++g_case) if (take()) hmac_case(i == 0 ? 255 : i == 1 ? 256 : i == 2 ? 1024 : i == 3 ? 4097 : i == 4 ? 64 : 65, 100 + i);
}

/* ------------------------------------------------------------------ HKDF / PBKDF2 */
static void hkdf_case(uint32_t kl, uint32_t sl, uint32_t il)
{
    static const uint32_t OL[] = {0, 1, 31, 32, 33, 64, 100, 1000, 8159, 8160};
    static const uint32_t BAD[] = {8161, 8192, 65536, 0x7FFFFFFFu, 0x80000000u, 0xFFFFFFFFu};
    rng_t r = rfor(g_seed, 0x4C, g_case);
    uint8_t *key = ga_place(&A4, kl + sl + il + 3, 1, 0), *salt = key + kl, *info = salt + sl, *out;
    uint32_t i;
    rfill(&r, key, kl + sl + il, (int)(g_case % 3));
    for (i = 0; i < 10; ++i) {
        int rc;
        if (!g_thorough && OL[i] > 1000 && g_case % 4) continue;
        out = ga_place(&A1, OL[i] ? OL[i] : 1, 1, 0);
#ifdef ABI_SUBJECT
        rc = tinyjambu_hkdf(out, OL[i], key, kl, sl ? salt : NULL, sl, il ? info : NULL, il);
#else
        m_hkdf(out, OL[i], key, kl, salt, sl, info, il); rc = 0;
#endif
        lhead("okm"); kv("keylen", kl); kv("saltlen", sl); kv("infolen", il); kv("outlen", OL[i]); os(" rc="); oi(rc); os(" | "); obuf_sum(out, OL[i]); lend();
    }
    for (i = 0; i < 6; ++i) {
        int rc;
        out = ga_place(&A1, 64, 1, 0);
        memset(out, 0xEE, 64);
#ifdef ABI_SUBJECT
        rc = tinyjambu_hkdf(out, BAD[i], key, kl, salt, sl, info, il);      /* must refuse without touching the buffer */
#else
        rc = -1;
#endif
        lhead("refuse"); kv("outlen", BAD[i]); os(" rc="); oi(rc); os(" | "); ohex(out, 64); lend();
    }
    /* incremental: extract, then expand in pieces running past the 8160-byte cap */
    {
        static const uint32_t PIECES[] = {1, 31, 33, 64, 1000, 2500, 5, 4000, 600, 32, 7};
        uint32_t done = 0, p;
        static uint8_t full[8160];
#ifdef ABI_SUBJECT
        tinyjambu_hkdf_state_t st;
        memset(&st, 0x99, sizeof st);
        tinyjambu_hkdf_extract(&st, key, kl, sl ? salt : NULL, sl);
#else
        m_hkdf(full, 8160, key, kl, salt, sl, info, il);
#endif
        for (p = 0; p < 11; ++p) {
            uint32_t n = PIECES[(p + g_case) % 11], ok = done + n <= 8160 ? n : 8160 - done;
            int rc;
            out = ga_place(&A1, n, 1, 0);
#ifdef ABI_SUBJECT
            rc = tinyjambu_hkdf_expand(&st, il ? info : NULL, il, out, n);
#else
            memcpy(out, full + done, ok); memset(out + ok, 0, n - ok); rc = done + n <= 8160 ? 0 : -1;
#endif
            lhead("expand"); kv("piece", p); kv("n", n); kv("before", done); os(" rc="); oi(rc); os(" | "); obuf_sum(out, n); lend();
            done += ok;
        }
#ifdef ABI_SUBJECT
        tinyjambu_hkdf_free(&st);
#endif
    }
}
static void sec_hkdf(void)
{
    static const uint32_t L[] = {0, 1, 31, 32, 33, 64, 65, 100};
    uint32_t i, n = g_thorough ? 512 : 40;
    for (i = 0; i < n; ++i, ++g_case) if (take()) hkdf_case(L[i & 7] + (i < 8 ? 1 : 0), L[(i >> 3) & 7], L[(i >> 6) & 7]);
}

static void pbkdf2_case(uint32_t ol, uint32_t pl, uint32_t sl, uint32_t count)
{
    rng_t r = rfor(g_seed, 0x4D, g_case);
    uint8_t *pw = ga_place(&A4, pl + sl + 1, 1, 0), *salt = pw + pl, *out = ga_place(&A1, ol ? ol : 1, 1, 0);
    rfill(&r, pw, pl + sl, (int)(g_case % 3));
#ifdef ABI_SUBJECT
    tinyjambu_pbkdf2(out, ol, pw, pl, salt, sl, count);
#else
    m_pbkdf2(out, ol, pw, pl, salt, sl, count);
#endif
    lhead("dk"); kv("outlen", ol); kv("pwlen", pl); kv("saltlen", sl); kv("count", count); os(" | "); obuf_sum(out, ol); lend();
}
static void sec_pbkdf2(void)
{
    static const uint32_t PWL[] = {0, 1, 63, 64, 65, 100, 200}, CNT[] = {0, 1, 2, 3, 5, 10, 4};
    uint32_t i, D = g_thorough ? 200 : 70;
    for (i = 0; i <= D; ++i, ++g_case) if (take()) pbkdf2_case(i, PWL[i % 7], (i * 7) % 41, CNT[(i / 2) % 7]);
    for (i = 0; i < 4; ++i, ++g_case) if (take()) pbkdf2_case(i == 0 ? 255 * 32 + 5 : i == 1 ? 8200 : i == 2 ? 257 * 32 - 1 : 33, 9, 8, i == 3 ? 1000 : 1);
}

/* ------------------------------------------------------------------ PRNG */
typedef struct { rng_t r; uint32_t nreq; uint32_t emitted_at[64]; uint8_t seeds[64][32]; uint32_t ret[64]; uint32_t emitted; const uint8_t *pattern; } ent_t;
static ent_t E;
static const uint8_t PAT_FULL[8] = {32, 32, 32, 32, 32, 32, 32, 32}, PAT_MIX[8] = {32, 16, 32, 0, 32, 31, 32, 1};
static void ent_next(uint8_t seed[32], uint32_t *ret)
{
    uint32_t i, k = E.nreq < 64 ? E.nreq : 63;
    for (i = 0; i < 32; ++i) seed[i] = (uint8_t)(rnext(&E.r) >> 56);
    *ret = E.pattern[E.nreq & 7];
    memcpy(E.seeds[k], seed, 32); E.ret[k] = *ret; E.emitted_at[k] = E.emitted;
    ++E.nreq;
}
#ifdef ABI_SUBJECT
static size_t ent_cb(void *ud, unsigned char *buf, size_t size)
{
    uint8_t s[32]; uint32_t ret;
    (void)ud;
    ent_next(s, &ret);
    memcpy(buf, s, size < 32 ? size : 32);
    return ret;
}
#endif
static void prng_case(void)
{
    static const uint32_t LIM[] = {0, 1, 32, 33, 64, 1024, 1u << 20, (1u << 20) + 1, 0xFFFFFFFFu, 100};
    static const uint32_t GEN[] = {0, 1, 31, 32, 33, 64, 100, 1000, 5000};
    rng_t r = rfor(g_seed, 0x4E, g_case);
    uint32_t nops = 4 + rbelow(&r, g_thorough ? 30 : 10), i, cl = (g_case % 3 == 0) ? 0 : (g_case % 3 == 1) ? 5 : 64 + rbelow(&r, 100);
    uint8_t *custom = ga_place(&A4, cl ? cl : 1, 1, 0), *out;
    int st_ok;
#ifdef ABI_SUBJECT
    tinyjambu_prng_state_t st;
#else
    m_drbg_t d;
    uint8_t seed[32]; uint32_t ret;
#endif
    E.r = rfor(g_seed, 0xE7, g_case); E.nreq = 0; E.emitted = 0; E.pattern = (g_case % 4 == 3) ? PAT_MIX : PAT_FULL;
    rfill(&r, custom, cl, (int)(g_case % 3));
#ifdef ABI_SUBJECT
    memset(&st, 0x77, sizeof st);
    st_ok = tinyjambu_prng_init_user(&st, ent_cb, NULL, cl ? custom : NULL, cl);
#else
    ent_next(seed, &ret); m_drbg_init(&d, seed, custom, cl); st_ok = ret == 32;
#endif
    lhead("init"); kv("customlen", cl); kv("ok", (uint32_t)(st_ok != 0)); kv("requests", E.nreq); lend();
    for (i = 0; i < nops; ++i) {
        uint32_t k = rbelow(&r, 10), before = E.nreq;
        if (k < 5) {
            uint32_t n = GEN[rbelow(&r, 9)], pos;
            out = ga_place(&A1, n ? n : 1, 1, 0);
#ifdef ABI_SUBJECT
            tinyjambu_prng_generate(&st, out, n);
            (void)pos;
#else
            for (pos = 0; pos < n; pos += 32) {
                if (m_drbg_needs_reseed(&d)) { E.emitted += 0; ent_next(seed, &ret); m_drbg_reseed(&d, seed); }
                m_drbg_block(&d, out + pos, n - pos < 32 ? n - pos : 32);
            }
#endif
            E.emitted += n;
            lhead("generate"); kv("op", i); kv("n", n); kv("requests", E.nreq - before); os(" | "); obuf_sum(out, n); lend();
        } else if (k < 7) {
            uint32_t fl = rbelow(&r, 80);
            uint8_t fed[80];
            rfill(&r, fed, fl, 0);
#ifdef ABI_SUBJECT
            tinyjambu_prng_feed(&st, fl ? fed : NULL, fl);
#else
            m_drbg_feed(&d, fed, fl);
#endif
            lhead("feed"); kv("op", i); kv("n", fl); kv("requests", E.nreq - before); lend();
        } else if (k < 8) {
            int ok;
#ifdef ABI_SUBJECT
            ok = tinyjambu_prng_reseed(&st);
#else
            ent_next(seed, &ret); m_drbg_reseed(&d, seed); ok = ret == 32;
#endif
            lhead("reseed"); kv("op", i); kv("ok", (uint32_t)(ok != 0)); kv("requests", E.nreq - before); lend();
        } else {
            uint32_t lim = LIM[rbelow(&r, 10)];
#ifdef ABI_SUBJECT
            tinyjambu_prng_set_reseed_limit(&st, lim);      /* 0xFFFFFFFF is SIZE_MAX on ILP32 */
#else
            m_drbg_set_limit(&d, lim);
#endif
            lhead("limit"); kv("op", i); kv("limit", lim); lend();
        }
    }
#ifdef ABI_SUBJECT
    tinyjambu_prng_free(&st);
    { const uint8_t *p = (const uint8_t *)&st; uint32_t nz = 0; for (i = 0; i < sizeof st; ++i) nz += p[i] != 0; lhead("free"); kv("nonzero", nz); lend(); }
#else
    lhead("free"); kv("nonzero", 0); lend();
#endif
}
static void sec_prng(void)
{
    uint32_t i, n = g_thorough ? 3000 : 200;
    for (i = 0; i < n; ++i, ++g_case) if (take()) prng_case();
}

/* ------------------------------------------------------------------ clean */
static void sec_clean(void)
{
    static const uint32_t BIG[] = {255, 256, 257, 4095, 4096, 4097, 65535 - 64};
    uint32_t size, off, i;
    for (size = 0; size <= (g_thorough ? 300u : 130u); ++size)
        for (off = 0; off < 8; ++off, ++g_case) {
            uint8_t *p;
            uint32_t lo = 0, hi = 0, in = 0;
            if (!take()) continue;
            p = ga_place(&A1, size + off + 24, (int)(size & 1), 0);      /* arena pre-filled with 0xA7 */
#ifdef ABI_SUBJECT
            tinyjambu_clean(p + 8 + off, size);
#else
            memset(p + 8 + off, 0, size);
#endif
            for (i = 0; i < 8 + off; ++i) lo += p[i] != 0xA7;
            for (i = 0; i < size; ++i) in += p[8 + off + i] != 0;
            for (i = 8 + off + size; i < size + off + 24; ++i) hi += p[i] != 0xA7;
            lhead("wipe"); kv("size", size); kv("off", off); kv("nonzero_inside", in); kv("changed_before", lo); kv("changed_after", hi); lend();
        }
    for (i = 0; i < 7; ++i, ++g_case) if (take()) {
        uint8_t *p = ga_place(&A1, BIG[i] + 32, 1, 0);
        uint32_t j, in = 0, out = 0;
#ifdef ABI_SUBJECT
        tinyjambu_clean(p + 16 + (i & 3), BIG[i]);
#else
        memset(p + 16 + (i & 3), 0, BIG[i]);
#endif
        for (j = 0; j < BIG[i] + 32; ++j) { int inside = j >= 16 + (i & 3) && j < 16 + (i & 3) + BIG[i]; if (inside) in += p[j] != 0; else out += p[j] != 0xA7; }
        lhead("wipe"); kv("size", BIG[i]); kv("nonzero_inside", in); kv("changed_outside", out); lend();
    }
}

/* ------------------------------------------------------------------ main */
static int streq(const char *a, const char *b) { while (*a && *a == *b) { ++a; ++b; } return *a == *b; }
static uint64_t atou(const char *s) { uint64_t v = 0; while (*s >= '0' && *s <= '9') v = v * 10 + (uint64_t)(*s++ - '0'); return v; }

int main(int argc, char **argv)
{
    int i;
    g_sec = "";
    for (i = 1; i < argc; ++i) {
        if (streq(argv[i], "--seed") && i + 1 < argc) g_seed = atou(argv[++i]);
        else if (streq(argv[i], "--section") && i + 1 < argc) g_sec = argv[++i];
        else if (streq(argv[i], "--only") && i + 1 < argc) g_only = (long)atou(argv[++i]);
        else if (streq(argv[i], "--thorough")) g_thorough = 1;
    }
    ga_init(&A1); ga_init(&A2); ga_init(&A3); ga_init(&A4);
    os("H sizeof_size_t="); ou((uint32_t)sizeof(size_t)); os(" sizeof_pointer="); ou((uint32_t)sizeof(void *)); os(" sizeof_long="); ou((uint32_t)sizeof(long)); lend();
    if (streq(g_sec, "aead")) sec_aead(0);
    else if (streq(g_sec, "siv")) sec_aead(1);
    else if (streq(g_sec, "hash")) sec_hash();
    else if (streq(g_sec, "hmac")) sec_hmac();
    else if (streq(g_sec, "hkdf")) sec_hkdf();
    else if (streq(g_sec, "pbkdf2")) sec_pbkdf2();
    else if (streq(g_sec, "prng")) sec_prng();
    else if (streq(g_sec, "clean")) sec_clean();
    else { os("E bad section\n"); oflush(); return 2; }
    os("DONE cases="); ou(g_case); lend();
    oflush();
    return 0;
}
