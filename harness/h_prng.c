/*
 * PRNG monitor (properties C15, C16, C17).
 *
 * The harness owns the entropy callback and the output buffers.  Every callback invocation is an event:
 * requested size, the 32-byte seed buffer before and after the callback wrote, the returned size, and - when it
 * fires inside generate - the byte offset in the output at which it fired (recovered from a sentinel pre-fill).
 *
 *   --mode model    C15: random histories judged online by a shadow Hash_DRBG (outputs AND entropy requests)
 *   --mode budget   C16: byte-budget invariant on (request, emission) events; p1 = max sequence length of the
 *                   exhaustive enumeration over a 10-operation alphabet; p3 = random long runs; twin-run feed monitor
 *   --mode faults   C17: all delivery patterns over the first 4 entropy requests x customisation; NULL callback in a
 *                   forked child with the OS entropy call interposed by a deterministic stub
 */
#include "common.h"
#include "model.h"
#include <sys/mman.h>
#include "TinyJAMBU.h"
#include <sys/wait.h>
#include <sys/types.h>

/* ------------------------------------------------------------------ deterministic OS entropy stub */

static uint64_t g_stub_ctr = 0;
static int g_stub_fail = 0;
static unsigned long long g_stub_calls = 0;
static void stub_fill(uint8_t *p, size_t n)
{
    size_t i;
    for (i = 0; i < n; ++i) { uint64_t s = 0x57AB + g_stub_ctr++; p[i] = (uint8_t)splitmix64(&s); }
}
ssize_t getrandom(void *buf, size_t len, unsigned int flags)
{
    (void)flags;
    ++g_stub_calls;
    if (g_stub_fail) { errno = EPERM; return -1; }
    stub_fill((uint8_t *)buf, len);
    return (ssize_t)len;
}
int getentropy(void *buf, size_t len)
{
    ++g_stub_calls;
    if (g_stub_fail) { errno = EPERM; return -1; }
    stub_fill((uint8_t *)buf, len);
    return 0;
}

/* ------------------------------------------------------------------ scripted callback */

typedef struct { size_t req, ret, off; uint8_t before[32], after[32]; int in_generate; } ev_t;

typedef struct {
    rng_t ent;               /* entropy byte stream */
    const int *script;       /* delivery per request (bytes written and returned); beyond nscript: 32 */
    int nscript;
    int nreq;                /* requests so far */
    ev_t *ev; size_t nev, cap;
    int keep_bytes;          /* record before/after (model modes) */
    /* current generate call, for offset recovery */
    const uint8_t *out; size_t out_size; const uint8_t *sentinel; size_t scan;
    unsigned long magic;
    const uint8_t *fixed;    /* corpus cases: deliver exactly these 32 bytes */
} cb_t;

static size_t entropy_cb(void *ud, unsigned char *buf, size_t size)
{
    cb_t *c = (cb_t *)ud;
    int d = c->nreq < c->nscript ? c->script[c->nreq] : 32;
    ev_t *e;
    if (c->nev == c->cap) {
        c->cap = c->cap ? c->cap * 2 : 256;
        c->ev = (ev_t *)realloc(c->ev, c->cap * sizeof(ev_t));
        if (!c->ev) { fprintf(stderr, "oom\n"); exit(2); }
    }
    e = &c->ev[c->nev++];
    e->req = size; e->in_generate = c->out != NULL; e->off = 0;
    if (c->keep_bytes && size >= 32) memcpy(e->before, buf, 32);
    if (c->out) {
        size_t p = c->scan;     /* offsets only grow within one call: resume where the last request was found */
        while (p + 32 <= c->out_size && memcmp(c->out + p, c->sentinel + p, 32) != 0) p += 32;
        c->scan = p;
        e->off = p;     /* first 32-byte block still untouched; a trailing partial block is never followed by a request */
    }
    if (d > 0) { size_t i, n = (size_t)d < size ? (size_t)d : size; for (i = 0; i < n; ++i) buf[i] = c->fixed ? c->fixed[i & 31] : (uint8_t)rnd64(&c->ent); }
    if (c->keep_bytes && size >= 32) memcpy(e->after, buf, 32);
    e->ret = (size_t)d;
    ++c->nreq;
    return (size_t)d;
}

static void cb_reset(cb_t *c, uint64_t seed, uint64_t idx, const int *script, int nscript, int keep)
{
    c->ent = rng_for(seed, 0xE27, idx);
    c->script = script; c->nscript = nscript; c->nreq = 0; c->nev = 0; c->keep_bytes = keep;
    c->out = NULL; c->out_size = 0; c->sentinel = NULL; c->magic = 0xCB; c->fixed = NULL;
}

static unsigned long long n_special, n_eval, n_ops, n_gen, n_feed, n_reseed, n_setlimit, n_events, n_auto_events, n_bytes_out,
    n_bytes_cmp, n_status, n_twin, n_seq_exh, n_budget_segments, n_null_runs, n_patterns, n_distinct_blocks_checked, n_long_streams, n_near_wrap;
static unsigned long long max_since = 0;

static uint8_t *g_out = NULL, *g_sent = NULL, *g_exp = NULL;
static size_t g_cap = 0;
static void need(size_t n)
{
    if (n + 64 > g_cap) {
        g_cap = n + 4096;
        g_out = (uint8_t *)realloc(g_out, g_cap); g_sent = (uint8_t *)realloc(g_sent, g_cap); g_exp = (uint8_t *)realloc(g_exp, g_cap);
        if (!g_out || !g_sent || !g_exp) { fprintf(stderr, "oom\n"); exit(2); }
    }
}

/* generate with sentinel pre-fill so that the callback can locate itself in the output */
static void lib_generate(tinyjambu_prng_state_t *st, cb_t *c, size_t n, rng_t *r)
{
    size_t i;
    uint64_t s = rnd64(r);
    need(n + 16);
    for (i = 0; i < n + 8; i += 8) { uint64_t v = splitmix64(&s); memcpy(g_sent + i, &v, 8); }
    memcpy(g_out, g_sent, n + 8);
    c->out = g_out; c->out_size = n; c->sentinel = g_sent; c->scan = 0;
    tinyjambu_prng_generate(st, n ? g_out : (rnd(r, 2) ? NULL : g_out), n);
    c->out = NULL;
    ++n_gen; n_bytes_out += n;
}

/* ------------------------------------------------------------------ C15: shadow model over histories */

typedef struct { int kind; size_t n; } hop_t;    /* 0 gen, 1 feed, 2 reseed, 3 set_limit */

static void describe(char *dst, size_t cap, const hop_t *ops, int nops)
{
    size_t l = 0; int i;
    dst[0] = 0;
    for (i = 0; i < nops && l + 24 < cap; ++i)
        l += (size_t)snprintf(dst + l, cap - l, "%s%c%zu", i ? " " : "", "gfrl"[ops[i].kind], ops[i].n);
}

static void model_history(const args_t *a, long idx)
{
    rng_t r = rng_for(a->seed, 0xD2B6, (uint64_t)idx);
    static const unsigned GS[] = {0, 1, 31, 32, 33, 64, 100, 1000, 5000, 255, 256, 257, 1023, 1024, 1025, 4096, 8192};
    static const size_t LIM[] = {0, 1, 31, 32, 33, 64, 100, 1024, 5000, 1048576, 1048577, (size_t)-1};
    static const int DEL[] = {32, 32, 32, 32, 32, 0, 7, 31, 16, 1};
    tinyjambu_prng_state_t st;
    m_drbg_t sh;
    static cb_t cb;
    hop_t ops[48];
    int script[64], nops, i, clen_choice = (int)rnd(&r, 4), rc, maxops = a->thorough ? 40 : 12;
    uint8_t custom[1100], fed[1100];
    size_t custom_len = clen_choice == 0 ? 0 : clen_choice == 1 ? 5 : clen_choice == 2 ? 64 + rnd(&r, 100) : (idx % 7 == 3 ? 255 + rnd(&r, 3) + 768 * (idx % 2) : rnd(&r, 64));
    size_t evi;
    char hist[400];
    nops = 1 + (int)rnd(&r, (uint32_t)maxops);
    for (i = 0; i < 64; ++i) script[i] = DEL[rnd(&r, (idx % 3 == 0) ? 10 : 5)];
    for (i = 0; i < nops; ++i) {
        int k = (int)rnd(&r, 10);
        ops[i].kind = k < 5 ? 0 : k < 7 ? 1 : k < 8 ? 2 : 3;
        ops[i].n = ops[i].kind == 0 ? GS[rnd(&r, idx % 5 == 0 ? 17 : idx % 5 == 1 ? 9 : 7)] : ops[i].kind == 1 ? rnd(&r, 4) == 0 ? 0 : (rnd(&r, 9) == 0 ? 255 + rnd(&r, 3) + 768 * rnd(&r, 2) : rnd(&r, 300)) : ops[i].kind == 3 ? LIM[rnd(&r, 12)] : 0;
    }
    describe(hist, sizeof hist, ops, nops);
    set_case("{\"h\":\"prng\",\"mode\":\"model\",\"i\":%ld,\"custom_len\":%zu,\"deliveries\":[%d,%d,%d,%d,%d,%d],\"ops\":\"%s\"}", idx, custom_len,
             script[0], script[1], script[2], script[3], script[4], script[5], hist);
    ++n_eval;
    cls_add(mix64(0xD2B6, (uint64_t)idx));
    if (idx % 211 == 0 || a->only >= 0) emit_sample();
    fill_random(&r, custom, sizeof custom);
    cb_reset(&cb, a->seed, (uint64_t)idx, script, 64, 1);
    fill_random(&r, (uint8_t *)&st, sizeof st);
    MSAN_POISON(&st, sizeof st);
    rc = tinyjambu_prng_init_user(&st, entropy_cb, &cb, custom_len ? custom : NULL, custom_len);
    if (cb.nev != 1 || cb.ev[0].req != 32) { emit_viol("init-entropy-request", "init made %zu entropy requests (size %zu), expected one of 32 bytes", cb.nev, cb.nev ? cb.ev[0].req : 0); return; }
    ++n_status;
    if ((rc != 0) != (cb.ev[0].ret == 32)) emit_viol("seed-status:init", "init returned %d for a delivery of %zu bytes", rc, cb.ev[0].ret);
    m_drbg_init(&sh, cb.ev[0].after, custom, custom_len);
    evi = 1;
    for (i = 0; i < nops; ++i) {
        ++n_ops;
        switch (ops[i].kind) {
        case 0: {
            size_t n = ops[i].n, pos = 0;
            lib_generate(&st, &cb, n, &r);
            /* shadow: predicts every block and every automatic entropy request */
            while (pos < n) {
                size_t l = n - pos < 32 ? n - pos : 32;
                if (m_drbg_needs_reseed(&sh)) {
                    if (evi >= cb.nev || !cb.ev[evi].in_generate || cb.ev[evi].off != pos) {
                        emit_viol("auto-reseed-missing-or-misplaced", "op %d (generate %zu): model expects an entropy request at output offset %zu; observed %s at %zu",
                                  i, n, pos, evi < cb.nev ? "one" : "none", evi < cb.nev ? cb.ev[evi].off : 0);
                        return;
                    }
                    m_drbg_reseed(&sh, cb.ev[evi].after);
                    ++evi; ++n_auto_events;
                }
                m_drbg_block(&sh, g_exp + pos, l);
                pos += l;
            }
            if (evi != cb.nev) { emit_viol("unexpected-entropy-request", "op %d (generate %zu): %zu entropy requests the documented algorithm does not make", i, n, cb.nev - evi); return; }
            n_bytes_cmp += n;
            if (n && memcmp(g_out, g_exp, n)) {
                size_t f = 0; char x[80], y[80];
                while (g_out[f] == g_exp[f]) ++f;
                hexs(x, g_exp + f, n - f, 16); hexs(y, g_out + f, n - f, 16);
                emit_viol(f < 32 ? "drbg-output-mismatch:first-block-of-call" : "drbg-output-mismatch:later-block", "op %d (generate %zu): output differs from the shadow Hash_DRBG at byte %zu: expected %s got %s", i, n, f, x, y);
                return;
            }
            if (memcmp(g_out + n, g_sent + n, 8)) { emit_viol("generate-wrote-past-size", "generate(%zu) wrote beyond the requested size", n); return; }
            break; }
        case 1:
            fill_random(&r, fed, sizeof fed);
            tinyjambu_prng_feed(&st, ops[i].n ? fed : NULL, ops[i].n);
            m_drbg_feed(&sh, fed, ops[i].n);
            ++n_feed;
            if (evi != cb.nev) { emit_viol("unexpected-entropy-request", "feed made an entropy request"); return; }
            break;
        case 2:
            rc = tinyjambu_prng_reseed(&st);
            ++n_reseed;
            if (cb.nev != evi + 1 || cb.ev[evi].req != 32) { emit_viol("reseed-entropy-request", "explicit reseed made %zu requests", cb.nev - evi); return; }
            ++n_status;
            if ((rc != 0) != (cb.ev[evi].ret == 32)) emit_viol("seed-status:reseed", "reseed returned %d for a delivery of %zu bytes", rc, cb.ev[evi].ret);
            m_drbg_reseed(&sh, cb.ev[evi].after);
            ++evi;
            break;
        default:
            tinyjambu_prng_set_reseed_limit(&st, ops[i].n);
            m_drbg_set_limit(&sh, ops[i].n);
            ++n_setlimit;
            break;
        }
    }
    n_events += cb.nev;
    tinyjambu_prng_free(&st);
}

/* The DRBG addition V + H + C + counter carries out of the low 32 bits only with probability counter / 2^32 per block:
 * short histories practically never exercise it.  At the maximum limit the counter reaches 32768, and one MiB of
 * output hits such a carry with probability ~1/8; every stream below is 1 MiB (+ a tail) checked against the shadow. */
static void model_long_stream(const args_t *a, long idx)
{
    rng_t r = rng_for(a->seed, 0x10C6, (uint64_t)idx);
    tinyjambu_prng_state_t st;
    m_drbg_t sh;
    static cb_t cb;
    size_t total = ((size_t)1 << 20) + 32 * (size_t)(idx % 5), pos = 0, evi;
    uint8_t blk[32];
    set_case("{\"h\":\"prng\",\"mode\":\"model-long-stream\",\"i\":%ld,\"limit\":1048576,\"bytes\":%zu}", idx, total);
    ++n_eval;
    cls_add(mix64(0x10C6, (uint64_t)idx));
    if (idx % 7 == 0 || a->only >= 0) emit_sample();
    cb_reset(&cb, a->seed, 0x100000u + (uint64_t)idx, NULL, 0, 1);
    tinyjambu_prng_init_user(&st, entropy_cb, &cb, NULL, 0);
    m_drbg_init(&sh, cb.ev[0].after, NULL, 0);
    tinyjambu_prng_set_reseed_limit(&st, 1048576); m_drbg_set_limit(&sh, 1048576);
    evi = 1;
    while (pos < total) {
        size_t n = 4096 + 32 * rnd(&r, 3), q;
        if (n > total - pos) n = total - pos;
        lib_generate(&st, &cb, n, &r);
        for (q = 0; q < n; q += 32) {
            size_t l = n - q < 32 ? n - q : 32;
            if (m_drbg_needs_reseed(&sh)) {
                if (evi >= cb.nev || cb.ev[evi].off != q) { emit_viol("auto-reseed-missing-or-misplaced", "long stream: expected an entropy request at stream offset %zu", pos + q); return; }
                m_drbg_reseed(&sh, cb.ev[evi].after); ++evi;
            }
            m_drbg_block(&sh, blk, l);
            if (memcmp(blk, g_out + q, l)) {
                emit_viol("drbg-output-mismatch:long-stream", "1 MiB stream at the maximum reseed limit differs from the shadow Hash_DRBG at stream offset %zu (reseed counter %llu)", pos + q, (unsigned long long)sh.counter - 1);
                return;
            }
        }
        if (evi != cb.nev) { emit_viol("unexpected-entropy-request", "long stream: entropy request the documented algorithm does not make"); return; }
        n_bytes_cmp += n;
        pos += n;
    }
    n_events += cb.nev;
    ++n_long_streams;
    tinyjambu_prng_free(&st);
}

/* "never from the new material alone": different initial entropy, identical later material -> different streams */
static void model_relational(const args_t *a, long idx)
{
    rng_t r = rng_for(a->seed, 0x2E1A, (uint64_t)idx);
    tinyjambu_prng_state_t s1, s2;
    static cb_t c1, c2;
    uint8_t o1[64], o2[64], fed[40];
    int kind = (int)(idx % 2);
    set_case("{\"h\":\"prng\",\"mode\":\"relational\",\"i\":%ld,\"kind\":\"%s\"}", idx, kind ? "reseed" : "feed");
    ++n_eval;
    cb_reset(&c1, a->seed, (uint64_t)idx * 2, NULL, 0, 0);
    cb_reset(&c2, a->seed, (uint64_t)idx * 2 + 1, NULL, 0, 0);
    tinyjambu_prng_init_user(&s1, entropy_cb, &c1, NULL, 0);
    tinyjambu_prng_init_user(&s2, entropy_cb, &c2, NULL, 0);
    fill_random(&r, fed, sizeof fed);
    if (kind) {
        c2.ent = c1.ent;     /* from now on both sources deliver identical entropy */
        tinyjambu_prng_reseed(&s1); tinyjambu_prng_reseed(&s2);
    } else {
        tinyjambu_prng_feed(&s1, fed, sizeof fed); tinyjambu_prng_feed(&s2, fed, sizeof fed);
    }
    tinyjambu_prng_generate(&s1, o1, 64); tinyjambu_prng_generate(&s2, o2, 64);
    if (!memcmp(o1, o2, 64)) emit_viol(kind ? "state-from-new-material-alone:reseed" : "state-from-new-material-alone:feed",
        "two generators with different initial seeds produce identical output after identical %s material", kind ? "reseed" : "feed");
    cls_add(mix64(0x2E1A, (uint64_t)idx));
}

/* ------------------------------------------------------------------ C16: byte budget */

typedef struct { unsigned long long since; size_t limit; int viol; } budget_t;

static size_t bound_for(size_t limit)
{
    size_t l = limit > 1048576u ? 1048576u : limit;
    l = (l + 31) / 32;
    if (!l) l = 1;
    return l * 32;
}

/* account for the events of one generate call of n bytes (events [e0, nev)) */
static void budget_generate(budget_t *b, cb_t *c, size_t e0, size_t n, const char *ctx)
{
    size_t prev = 0, e, L = bound_for(b->limit);
    for (e = e0; e <= c->nev; ++e) {
        size_t at = e < c->nev ? c->ev[e].off : n, seg = at - prev;
        if (seg) {
            b->since += seg;
            ++n_budget_segments;
            if (b->since > max_since) max_since = b->since;
            if (b->since > L && !b->viol) {
                b->viol = 1;
                emit_viol("reseed-budget-exceeded", "%s: %llu bytes emitted since the last entropy request, limit in force %zu -> bound %zu", ctx, b->since, b->limit, L);
            }
        }
        if (e < c->nev) { b->since = 0; prev = at; }
    }
}

static const struct { int kind; size_t n; } ALPHA[10] = {
    {0, 1}, {0, 32}, {0, 33}, {0, 100}, {1, 9}, {2, 0}, {3, 0}, {3, 1}, {3, 33}, {3, 64}};

static void budget_sequence(const args_t *a, long idx, const int *seq, int len)
{
    tinyjambu_prng_state_t st;
    static cb_t cb;
    budget_t b = {0, 1024, 0};
    rng_t r = rng_for(a->seed, 0xB0D6, (uint64_t)idx);
    uint8_t fed[16];
    int i;
    char s[64] = "";
    size_t sl = 0;
    for (i = 0; i < len; ++i) sl += (size_t)snprintf(s + sl, sizeof s - sl, "%d", seq[i]);
    set_case("{\"h\":\"prng\",\"mode\":\"budget-exhaustive\",\"i\":%ld,\"alphabet\":\"0:g1 1:g32 2:g33 3:g100 4:feed 5:reseed 6:lim0 7:lim1 8:lim33 9:lim64\",\"seq\":\"%s\"}", idx, s);
    ++n_eval; ++n_seq_exh;
    cb_reset(&cb, a->seed, (uint64_t)idx, NULL, 0, 0);
    tinyjambu_prng_init_user(&st, entropy_cb, &cb, NULL, 0);
    for (i = 0; i < len; ++i) {
        size_t e0 = cb.nev;
        ++n_ops;
        switch (ALPHA[seq[i]].kind) {
        case 0: lib_generate(&st, &cb, ALPHA[seq[i]].n, &r); budget_generate(&b, &cb, e0, ALPHA[seq[i]].n, s); break;
        case 1: memset(fed, 0x5A, sizeof fed); tinyjambu_prng_feed(&st, fed, ALPHA[seq[i]].n); ++n_feed; break;
        case 2: tinyjambu_prng_reseed(&st); b.since = 0; ++n_reseed; break;
        default: tinyjambu_prng_set_reseed_limit(&st, ALPHA[seq[i]].n); b.limit = ALPHA[seq[i]].n; ++n_setlimit; break;
        }
    }
    /* drain: whatever the history, a long generate must keep respecting the bound in force */
    { size_t e0 = cb.nev; lib_generate(&st, &cb, 1200, &r); budget_generate(&b, &cb, e0, 1200, s); }
    n_events += cb.nev;
    cls_add(mix64(0xB0D6, (uint64_t)idx));
    if (idx % 50021 == 0 || a->only >= 0) emit_sample();
}

/* hooks compiled into /repo only with -DRWEATHER_TINYJAMBU_VERIF (absent from the cmake production build) */
extern unsigned long tinyjambu_prng_verif_get_counter(const tinyjambu_prng_state_t *state) __attribute__((weak));
extern void tinyjambu_prng_verif_set_counter(tinyjambu_prng_state_t *state, unsigned long value) __attribute__((weak));

/* Histories that need ~2^32 feed calls (hours) through the API: the hook places the block counter k below the top of
 * its 32-bit range - the state that 2^32-1-k-1 feeds since the last seeding produce - and the last feeds, the limit
 * change and the generation then go through the API under the same byte-budget and twin monitors. */
static void budget_near_wrap(const args_t *a, long idx, unsigned k, unsigned nfeeds, size_t limit)
{
    tinyjambu_prng_state_t st, tw;
    static cb_t cb;
    budget_t b = {0, 1024, 0};
    rng_t r = rng_for(a->seed, 0xB0D8, (uint64_t)idx);
    uint8_t fed[8] = {1, 2, 3, 4, 5, 6, 7, 8};
    unsigned i;
    size_t e0, e1, oa, ob, n = bound_for(limit) + 96;
    char ctx[96];
    snprintf(ctx, sizeof ctx, "counter placed at 2^32-1-%u, then %u feeds, limit %zu", k, nfeeds, limit);
    set_case("{\"h\":\"prng\",\"mode\":\"budget-near-counter-wrap\",\"i\":%ld,\"counter\":\"2^32-1-%u\",\"feeds\":%u,\"limit\":%zu}", idx, k, nfeeds, limit);
    ++n_eval; ++n_near_wrap;
    cls_add(mix64(0xB0D8, (uint64_t)idx));
    if (idx % 13 == 0 || a->only >= 0) emit_sample();
    cb_reset(&cb, a->seed, (uint64_t)idx, NULL, 0, 0);
    tinyjambu_prng_init_user(&st, entropy_cb, &cb, NULL, 0);
    tinyjambu_prng_set_reseed_limit(&st, limit); b.limit = limit;
    tinyjambu_prng_verif_set_counter(&st, 0xFFFFFFFFul - k);
    for (i = 0; i < nfeeds; ++i) { tinyjambu_prng_feed(&st, fed, i & 7); ++n_feed; }
    /* twin: one more feed must not move the next entropy request further away */
    memcpy(&tw, &st, sizeof st);
    tinyjambu_prng_feed(&tw, fed, 3);
    e0 = cb.nev;
    lib_generate(&st, &cb, n, &r);
    budget_generate(&b, &cb, e0, n, ctx);
    oa = cb.nev > e0 ? cb.ev[e0].off : n + 1;
    e1 = cb.nev;
    lib_generate(&tw, &cb, n, &r);
    ob = cb.nev > e1 ? cb.ev[e1].off : n + 1;
    ++n_twin;
    if (ob > oa) emit_viol("feed-delays-reseed", "%s: after ONE MORE feed the next entropy request came after %zu bytes instead of %zu", ctx, ob, oa);
    n_events += cb.nev;
}

/* The same idea anywhere in the counter's range: generate `pre` blocks through the API (counter = 1 + pre), then let
 * the hook stand in for c - 1 - pre feed calls (counter = c), then feeds, and generation under the byte-budget monitor
 * (which has counted the `pre` blocks) and the twin monitor.  2^27 feeds take minutes through the API, 2^31 hours. */
static void budget_placed(const args_t *a, long idx, unsigned long c, unsigned nfeeds, size_t limit, unsigned long pre)
{
    tinyjambu_prng_state_t st, tw;
    static cb_t cb;
    budget_t b = {0, 1024, 0};
    rng_t r = rng_for(a->seed, 0xB0D9, (uint64_t)idx);
    uint8_t fed[8] = {9, 8, 7, 6, 5, 4, 3, 2};
    unsigned i;
    size_t e0, e1, oa, ob, n = bound_for(limit) + 96;
    char ctx[128];
    if (c < 1 + pre || c > 0xFFFFFFFFul) return;
    snprintf(ctx, sizeof ctx, "%lu blocks generated, counter placed at %lu (= %lu feeds), then %u feeds, limit %zu", pre, c, c - 1 - pre, nfeeds, limit);
    set_case("{\"h\":\"prng\",\"mode\":\"budget-placed-counter\",\"i\":%ld,\"pre_blocks\":%lu,\"counter\":%lu,\"feeds\":%u,\"limit\":%zu}", idx, pre, c, nfeeds, limit);
    ++n_eval; ++n_near_wrap;
    cls_add(mix64(0xB0D9, (uint64_t)idx));
    if (idx % 101 == 0 || a->only >= 0) emit_sample();
    cb_reset(&cb, a->seed, (uint64_t)idx, NULL, 0, 0);
    tinyjambu_prng_init_user(&st, entropy_cb, &cb, NULL, 0);
    tinyjambu_prng_set_reseed_limit(&st, limit); b.limit = limit;
    if (pre) { e0 = cb.nev; lib_generate(&st, &cb, pre * 32, &r); budget_generate(&b, &cb, e0, pre * 32, ctx); }
    if (tinyjambu_prng_verif_get_counter(&st) != 1 + pre) return;           /* a reseed happened inside `pre`: not the state described */
    tinyjambu_prng_verif_set_counter(&st, c);
    for (i = 0; i < nfeeds; ++i) { tinyjambu_prng_feed(&st, fed, i & 7); ++n_feed; }
    memcpy(&tw, &st, sizeof st);
    tinyjambu_prng_feed(&tw, fed, 3);
    e0 = cb.nev;
    lib_generate(&st, &cb, n, &r);
    budget_generate(&b, &cb, e0, n, ctx);
    oa = cb.nev > e0 ? cb.ev[e0].off : n + 1;
    e1 = cb.nev;
    lib_generate(&tw, &cb, n, &r);
    ob = cb.nev > e1 ? cb.ev[e1].off : n + 1;
    ++n_twin;
    if (ob > oa) emit_viol("feed-delays-reseed", "%s: after ONE MORE feed the next entropy request came after %zu bytes instead of %zu", ctx, ob, oa);
    n_events += cb.nev;
}

/* thorough: the real thing for one power - 2^27 - 32 + d feed calls through the API after a full limit of output
 * (about four minutes), then generation under the same monitors; where the hook exists it also confirms that the
 * counter is what budget_placed() assumes that history produces. */
static void budget_real_feeds(const args_t *a, long idx, int d)
{
    tinyjambu_prng_state_t st, tw;
    static cb_t cb;
    budget_t b = {0, 1024, 0};
    rng_t r = rng_for(a->seed, 0xB0DA, (uint64_t)idx);
    uint8_t fed[8] = {1, 1, 2, 3, 5, 8, 13, 21};
    unsigned long nf = (1ul << 27) - 32 + (unsigned long)d, i;
    size_t e0, e1, oa, ob, n = 1024 + 96;
    char ctx[128];
    snprintf(ctx, sizeof ctx, "1024 bytes generated, then %lu feed calls through the API, limit 1024", nf);
    set_case("{\"h\":\"prng\",\"mode\":\"budget-real-feeds\",\"i\":%ld,\"pre_bytes\":1024,\"feeds\":%lu,\"limit\":1024}", idx, nf);
    ++n_eval; cls_add(mix64(0xB0DA, (uint64_t)idx)); emit_sample();
    cb_reset(&cb, a->seed, (uint64_t)idx, NULL, 0, 0);
    tinyjambu_prng_init_user(&st, entropy_cb, &cb, NULL, 0);
    e0 = cb.nev; lib_generate(&st, &cb, 1024, &r); budget_generate(&b, &cb, e0, 1024, ctx);
    for (i = 0; i < nf; ++i) tinyjambu_prng_feed(&st, fed, (size_t)(i & 7));
    n_feed += nf;
    if (tinyjambu_prng_verif_get_counter && tinyjambu_prng_verif_get_counter(&st) != 33 + nf)
        emit_viol("hook-model-mismatch", "%s: the block counter is %lu, the placed-counter histories assume %lu", ctx, tinyjambu_prng_verif_get_counter(&st), 33 + nf);
    memcpy(&tw, &st, sizeof st);
    tinyjambu_prng_feed(&tw, fed, 3);
    e0 = cb.nev; lib_generate(&st, &cb, n, &r); budget_generate(&b, &cb, e0, n, ctx);
    oa = cb.nev > e0 ? cb.ev[e0].off : n + 1;
    e1 = cb.nev; lib_generate(&tw, &cb, n, &r);
    ob = cb.nev > e1 ? cb.ev[e1].off : n + 1;
    ++n_twin;
    if (ob > oa) emit_viol("feed-delays-reseed", "%s: after ONE MORE feed the next entropy request came after %zu bytes instead of %zu", ctx, ob, oa);
    n_events += cb.nev;
}

static void budget_random(const args_t *a, long idx)
{
    static const size_t LIM[] = {0, 1, 31, 32, 33, 64, 100, 1024, 4096, 1048576, 1048577, (size_t)-1, 65536, 3000};
    tinyjambu_prng_state_t st, tw;
    static cb_t cb;
    budget_t b = {0, 1024, 0};
    rng_t r = rng_for(a->seed, 0xB0D7, (uint64_t)idx);
    int nops = 5 + (int)rnd(&r, 40), i, big = (idx % 17 == 0);   /* 17: coprime with the batch count, so big runs spread over all batches */
    char hist[300] = ""; size_t hl = 0;
    uint8_t fed[64];
    static const int ZERO_FIRST[4] = {0, 32, 0, 7};
    ++n_eval;
    /* every fifth run: the source delivers nothing at instantiation (and again at the third request, 7 bytes at the
     * fourth); the byte budget between REQUESTS holds whatever the source answers */
    cb_reset(&cb, a->seed, (uint64_t)idx, (idx % 5 == 3) ? ZERO_FIRST : NULL, (idx % 5 == 3) ? 4 : 0, 0);
    tinyjambu_prng_init_user(&st, entropy_cb, &cb, NULL, 0);
    for (i = 0; i < nops; ++i) {
        int k = (int)rnd(&r, 10);
        size_t e0 = cb.nev, n;
        ++n_ops;
        if (k < 5) {
            n = rnd(&r, 8) == 0 ? rnd(&r, big ? 5u << 20 : 70000) : rnd(&r, 3000);
            lib_generate(&st, &cb, n, &r);
            if (hl + 16 < sizeof hist) hl += (size_t)snprintf(hist + hl, sizeof hist - hl, "g%zu ", n);
            set_case("{\"h\":\"prng\",\"mode\":\"budget-random\",\"i\":%ld,\"ops\":\"%s\"}", idx, hist);
            budget_generate(&b, &cb, e0, n, "random run");
            if (memcmp(g_out + n, g_sent + n, 8)) emit_viol("generate-wrote-past-size", "generate(%zu) wrote beyond the requested size", n);
        } else if (k < 7) {
            n = rnd(&r, 64); fill_random(&r, fed, sizeof fed);
            tinyjambu_prng_feed(&st, fed, n); ++n_feed;
            if (hl + 16 < sizeof hist) hl += (size_t)snprintf(hist + hl, sizeof hist - hl, "f%zu ", n);
        } else if (k < 8) {
            tinyjambu_prng_reseed(&st); b.since = 0; ++n_reseed;
            if (hl + 16 < sizeof hist) hl += (size_t)snprintf(hist + hl, sizeof hist - hl, "r ");
        } else {
            n = LIM[rnd(&r, big ? 14 : 9)];
            tinyjambu_prng_set_reseed_limit(&st, n); b.limit = n; ++n_setlimit;
            if (hl + 24 < sizeof hist) hl += (size_t)snprintf(hist + hl, sizeof hist - hl, "l%zu ", n);
        }
    }
    set_case("{\"h\":\"prng\",\"mode\":\"budget-random\",\"i\":%ld,\"ops\":\"%s\"}", idx, hist);
    /* twin monitor: identical state, one extra feed -> the next entropy request comes no later */
    if (b.limit <= 70000) {
        size_t e0 = cb.nev, e1, oa, ob, n = bound_for(b.limit) + 64;
        memcpy(&tw, &st, sizeof st);      /* twin = byte copy of the state */
        /* the state stores the user_data pointer; the twin therefore shares `cb`: run sequentially and split events */
        tinyjambu_prng_feed(&tw, fed, 8);
        lib_generate(&st, &cb, n, &r);
        oa = cb.nev > e0 ? cb.ev[e0].off : n + 1;
        e1 = cb.nev;
        lib_generate(&tw, &cb, n, &r);
        ob = cb.nev > e1 ? cb.ev[e1].off : n + 1;
        ++n_twin;
        if (ob > oa) emit_viol("feed-delays-reseed", "after an extra feed the next entropy request came after %zu bytes instead of %zu", ob, oa);
    }
    n_events += cb.nev;
    cls_add(mix64(0xB0D7, (uint64_t)idx));
    if (idx % 97 == 0 || a->only >= 0) emit_sample();
}

/* ------------------------------------------------------------------ C17: delivery faults */

static const int FD[5] = {0, 1, 16, 31, 32};

/* history: init | gen 33 | reseed | limit 64 | gen 200 (automatic requests at 64, 128, 192) | gen 40 */
static int fault_run_b(const args_t *a, long idx, const int *script, int nscript, size_t custom_len, uint64_t entidx,
                       uint8_t *stream, int judge);

static int fault_run(const args_t *a, long idx, const int *script, int nscript, size_t custom_len, uint64_t entidx,
                     uint8_t *stream, int judge)
{
    tinyjambu_prng_state_t st;
    m_drbg_t sh;
    static cb_t cb;
    uint8_t custom[128];
    rng_t r = rng_for(a->seed, 0xFA17, (uint64_t)idx);
    size_t evi, total = 0, pos;
    int rc, step;
    static const size_t G[3] = {33, 200, 40};
    memset(custom, 0xC5, sizeof custom);
    cb_reset(&cb, a->seed ^ 0x5EED, entidx, script, nscript, 1);
    fill_random(&r, (uint8_t *)&st, sizeof st);
    rc = tinyjambu_prng_init_user(&st, entropy_cb, &cb, custom_len ? custom : NULL, custom_len);
    if (cb.nev != 1) { if (judge) emit_viol("init-entropy-request", "init made %zu requests", cb.nev); return -1; }
    if (judge) { ++n_status; if ((rc != 0) != (cb.ev[0].ret == 32)) emit_viol("seed-status:init", "init returned %d for a delivery of %zu bytes", rc, cb.ev[0].ret); }
    m_drbg_init(&sh, cb.ev[0].after, custom, custom_len);
    evi = 1;
    for (step = 0; step < 3; ++step) {
        size_t n = G[step];
        if (step == 1) {
            rc = tinyjambu_prng_reseed(&st);
            if (cb.nev != evi + 1) { if (judge) emit_viol("reseed-entropy-request", "reseed made %zu requests", cb.nev - evi); return -1; }
            if (judge) { ++n_status; if ((rc != 0) != (cb.ev[evi].ret == 32)) emit_viol("seed-status:reseed", "reseed returned %d for a delivery of %zu bytes", rc, cb.ev[evi].ret); }
            m_drbg_reseed(&sh, cb.ev[evi].after); ++evi;
            tinyjambu_prng_set_reseed_limit(&st, 64); m_drbg_set_limit(&sh, 64);
        }
        lib_generate(&st, &cb, n, &r);
        for (pos = 0; pos < n; ) {
            size_t l = n - pos < 32 ? n - pos : 32;
            if (m_drbg_needs_reseed(&sh)) {
                if (evi >= cb.nev || cb.ev[evi].off != pos) { if (judge) emit_viol("auto-reseed-missing-or-misplaced", "expected an entropy request at offset %zu of generate(%zu)", pos, n); return -1; }
                m_drbg_reseed(&sh, cb.ev[evi].after); ++evi;
            }
            m_drbg_block(&sh, g_exp + pos, l); pos += l;
        }
        if (judge && memcmp(g_out, g_exp, n)) {
            emit_viol("fault-stream-mismatch", "after the delivery pattern the output of generate #%d differs from the shadow model fed with the bytes actually delivered", step);
            return -1;
        }
        memcpy(stream + total, g_out, n); total += n;
    }
    tinyjambu_prng_free(&st);
    return (int)total;
}

/* history B: init | reseed | reseed | gen 40 | reseed | gen 100   (seeding calls back to back, nothing generated in
 * between: every one of them must still consult the source and report its own delivery) */
static int fault_run_b(const args_t *a, long idx, const int *script, int nscript, size_t custom_len, uint64_t entidx,
                       uint8_t *stream, int judge)
{
    tinyjambu_prng_state_t st;
    m_drbg_t sh;
    static cb_t cb;
    uint8_t custom[128];
    rng_t r = rng_for(a->seed, 0xFA19, (uint64_t)idx);
    size_t evi, total = 0, pos;
    int rc, step;
    static const int PLAN[6] = {1, 1, 0, 1, 0, -1};      /* 1 = reseed, 0 = generate */
    static const size_t G[2] = {40, 100};
    int gi = 0;
    memset(custom, 0xC5, sizeof custom);
    cb_reset(&cb, a->seed ^ 0x5EED, entidx, script, nscript, 1);
    fill_random(&r, (uint8_t *)&st, sizeof st);
    rc = tinyjambu_prng_init_user(&st, entropy_cb, &cb, custom_len ? custom : NULL, custom_len);
    if (cb.nev != 1) { if (judge) emit_viol("init-entropy-request", "init made %zu requests", cb.nev); return -1; }
    if (judge) { ++n_status; if ((rc != 0) != (cb.ev[0].ret == 32)) emit_viol("seed-status:init", "init returned %d for a delivery of %zu bytes", rc, cb.ev[0].ret); }
    m_drbg_init(&sh, cb.ev[0].after, custom, custom_len);
    evi = 1;
    for (step = 0; PLAN[step] >= 0; ++step) {
        if (PLAN[step]) {
            rc = tinyjambu_prng_reseed(&st);
            if (cb.nev != evi + 1) { if (judge) emit_viol("reseed-entropy-request", "explicit reseed #%d (no output since the previous seeding) made %zu entropy requests instead of one", step, cb.nev - evi); return -1; }
            if (judge) { ++n_status; if ((rc != 0) != (cb.ev[evi].ret == 32)) emit_viol("seed-status:reseed", "reseed returned %d for a delivery of %zu bytes", rc, cb.ev[evi].ret); }
            m_drbg_reseed(&sh, cb.ev[evi].after); ++evi;
        } else {
            size_t n = G[gi++];
            lib_generate(&st, &cb, n, &r);
            for (pos = 0; pos < n; ) {
                size_t l = n - pos < 32 ? n - pos : 32;
                if (m_drbg_needs_reseed(&sh)) {
                    if (evi >= cb.nev || cb.ev[evi].off != pos) { if (judge) emit_viol("auto-reseed-missing-or-misplaced", "expected an entropy request at offset %zu of generate(%zu)", pos, n); return -1; }
                    m_drbg_reseed(&sh, cb.ev[evi].after); ++evi;
                }
                m_drbg_block(&sh, g_exp + pos, l); pos += l;
            }
            if (judge && memcmp(g_out, g_exp, n)) { emit_viol("fault-stream-mismatch", "history B: output differs from the shadow model fed with the bytes actually delivered"); return -1; }
            memcpy(stream + total, g_out, n); total += n;
        }
    }
    tinyjambu_prng_free(&st);
    return (int)total;
}

static void fault_pattern(const args_t *a, long idx, const int *script, int nscript, size_t custom_len)
{
    uint8_t s1[400], s2[400];
    int t1, t2, i, j, partial = 0;
    set_case("{\"h\":\"prng\",\"mode\":\"faults\",\"i\":%ld,\"deliveries\":[%d,%d,%d,%d,%d,%d],\"n\":%d,\"custom_len\":%zu}", idx,
             script[0], nscript > 1 ? script[1] : 32, nscript > 2 ? script[2] : 32, nscript > 3 ? script[3] : 32,
             nscript > 4 ? script[4] : 32, nscript > 5 ? script[5] : 32, nscript, custom_len);
    ++n_eval; ++n_patterns;
    cls_add(mix64(0xFA17, (uint64_t)idx));
    if (idx % 211 == 0 || a->only >= 0) emit_sample();
    /* history B first (its own verdicts), then history A whose stream is inspected below */
    if (fault_run_b(a, idx, script, nscript, custom_len, (uint64_t)idx * 2 + 7, s2, 1) < 0) return;
    t1 = fault_run(a, idx, script, nscript, custom_len, (uint64_t)idx * 2, s1, 1);
    if (t1 < 0) return;
    /* usable: 32-byte blocks of the stream are pairwise distinct and not constant bytes */
    for (i = 0; i + 32 <= t1; i += 32) {
        int c = 1;
        for (j = 1; j < 32; ++j) if (s1[i + j] != s1[i]) { c = 0; break; }
        if (c) { emit_viol("constant-output", "a 32-byte output block consists of one repeated byte"); return; }
        for (j = i + 32; j + 32 <= t1; j += 32) {
            ++n_distinct_blocks_checked;
            if (!memcmp(s1 + i, s1 + j, 32)) { emit_viol("repeating-output", "output blocks at %d and %d are identical", i, j); return; }
        }
    }
    /* partial data is mixed in: same pattern, different partial bytes -> different stream */
    for (i = 0; i < nscript; ++i) if (script[i] > 0) partial = 1;
    if (partial) {
        t2 = fault_run(a, idx, script, nscript, custom_len, (uint64_t)idx * 2 + 1, s2, 0);
        if (t2 == t1 && !memcmp(s1, s2, (size_t)t1)) emit_viol("delivered-bytes-ignored", "two runs that differ only in the bytes delivered produce the same stream");
    }
}

static void null_callback(const args_t *a, long idx, size_t custom_len, int fail)
{
    pid_t pid;
    int pfd[2], status = 0;
    char buf[512];
    ssize_t got;
    set_case("{\"h\":\"prng\",\"mode\":\"null-callback\",\"i\":%ld,\"custom_len\":%zu,\"os_source\":\"%s\"}", idx, custom_len, fail ? "EPERM" : "ok");
    ++n_eval; ++n_null_runs;
    cls_add(mix64(0x9011, (uint64_t)idx));
    emit_sample();
    fflush(stdout);
    if (pipe(pfd)) { perror("pipe"); exit(2); }
    pid = fork();
    if (pid < 0) { perror("fork"); exit(2); }
    if (pid == 0) {
        tinyjambu_prng_state_t s1, s2;
        uint8_t custom[128], o1[2100], o2[2100], seed[32], exp[2100];
        m_drbg_t sh;
        int r1, r2, ok = 1;
        size_t pos;
        unsigned long long c1, c2;
        const char *msg = "OK";
        signal(SIGSEGV, SIG_DFL); signal(SIGBUS, SIG_DFL); signal(SIGABRT, SIG_DFL);
        close(pfd[0]);
        memset(custom, 0x3C, sizeof custom);
        g_stub_fail = fail;
        g_stub_ctr = 1000 * (uint64_t)idx; g_stub_calls = 0;
        r1 = tinyjambu_prng_init_user(&s1, NULL, NULL, custom_len ? custom : NULL, custom_len);
        tinyjambu_prng_generate(&s1, o1, sizeof o1);
        c1 = g_stub_calls;
        g_stub_ctr = 1000 * (uint64_t)idx; g_stub_calls = 0;
        r2 = tinyjambu_prng_init(&s2, custom_len ? custom : NULL, custom_len);
        tinyjambu_prng_generate(&s2, o2, sizeof o2);
        c2 = g_stub_calls;
        if ((r1 != 0) != (r2 != 0)) { ok = 0; msg = "status differs from tinyjambu_prng_init"; }
        else if ((r1 != 0) != (!fail)) { ok = 0; msg = "status does not reflect the system source"; }
        else if (memcmp(o1, o2, sizeof o1)) { ok = 0; msg = "stream differs from tinyjambu_prng_init"; }
        else if (c1 != c2 || c1 < 3) { ok = 0; msg = "system source not consulted as by tinyjambu_prng_init (init + automatic reseeds)"; }
        if (ok && !fail) {
            /* and it is the documented function of the system-provided bytes */
            g_stub_ctr = 1000 * (uint64_t)idx;
            stub_fill(seed, 32);
            m_drbg_init(&sh, seed, custom, custom_len);
            for (pos = 0; pos < sizeof exp; pos += 32) {
                size_t l = sizeof exp - pos < 32 ? sizeof exp - pos : 32;
                if (m_drbg_needs_reseed(&sh)) { stub_fill(seed, 32); m_drbg_reseed(&sh, seed); }
                m_drbg_block(&sh, exp + pos, l);
            }
            if (memcmp(exp, o1, sizeof exp)) { ok = 0; msg = "stream is not the Hash_DRBG of the system-provided seed bytes"; }
        }
        got = write(pfd[1], msg, strlen(msg)); (void)got;
        _exit(ok ? 0 : 3);
    }
    close(pfd[1]);
    got = read(pfd[0], buf, sizeof buf - 1);
    buf[got > 0 ? got : 0] = 0;
    close(pfd[0]);
    waitpid(pid, &status, 0);
    if (WIFSIGNALED(status)) {
        char key[64];
        snprintf(key, sizeof key, "null-callback:crash-sig%d", WTERMSIG(status));
        emit_viol(key, "tinyjambu_prng_init_user(state, NULL, NULL, custom, %zu) killed the process with signal %d", custom_len, WTERMSIG(status));
    } else if (!WIFEXITED(status) || WEXITSTATUS(status) != 0) {
        emit_viol("null-callback:not-system-source", "NULL callback does not behave like tinyjambu_prng_init: %s (exit %d)", buf, WIFEXITED(status) ? WEXITSTATUS(status) : -1);
    }
}

/* ------------------------------------------------------------------ main */

int main(int argc, char **argv)
{
    args_t a = parse_args(argc, argv);
    long idx = 0, i;
    install_crash_handlers();
    need(1 << 16);
    if (!strcmp(a.mode, "model")) {
        for (i = 0; i < a.p1; ++i, ++idx) if (mine(&a, idx)) model_history(&a, idx);
        for (i = 0; i < a.p2; ++i, ++idx) if (mine(&a, idx)) model_relational(&a, idx);
        for (i = 0; i < a.p3; ++i, ++idx) if (mine(&a, idx)) model_long_stream(&a, idx);
    } else if (!strcmp(a.mode, "budget")) {
        int len, seq[8];
        for (len = 0; len <= a.p1; ++len) {
            long total = 1, t; int j;
            for (j = 0; j < len; ++j) total *= 10;
            for (t = 0; t < total; ++t, ++idx) {
                long v = t;
                if (!mine(&a, idx)) continue;
                for (j = len - 1; j >= 0; --j) { seq[j] = (int)(v % 10); v /= 10; }
                budget_sequence(&a, idx, seq, len);
            }
        }
        for (i = 0; i < a.p3; ++i, ++idx) if (mine(&a, idx)) budget_random(&a, idx);
        if (tinyjambu_prng_verif_set_counter) {
            static const size_t LIMS[4] = {0, 64, 1024, 1048576};
            unsigned k, f, l;
            for (k = 0; k < 5; ++k) for (f = 0; f < 9; ++f) for (l = 0; l < 4; ++l, ++idx)
                if (mine(&a, idx)) budget_near_wrap(&a, idx, k, f, LIMS[l]);
            { static const int PW[] = {8, 15, 16, 20, 24, 26, 27, 28, 29, 30, 31};
              int pw, d, pr;
              for (pw = 0; pw < 11; ++pw) for (d = -2; d <= 2; ++d) for (f = 0; f < 3; ++f) for (l = 0; l < 4; ++l) for (pr = 0; pr < 3; ++pr, ++idx) {
                  unsigned long full = (unsigned long)(bound_for(LIMS[l]) / 32), pre = pr == 0 ? 0 : pr == 1 ? 1 : full;
                  if (pr == 2 && full > 64 && !(d == 0 && f == 0)) continue;        /* the 1 MiB prefix only once per power */
                  if (pr == 1 && full == 1) continue;
                  if (mine(&a, idx)) budget_placed(&a, idx, (unsigned long)((1L << PW[pw]) + d), f, LIMS[l], pre);
              } }
        } else if (a.batch == 0) emit_info("near-counter-wrap histories skipped: this build has no RWEATHER_TINYJAMBU_VERIF hook");
    } else if (!strcmp(a.mode, "special")) {
        /* corpus (model/mine.c): seeds and personalisation strings for which, while some block <= 48 is produced, a word of
         * V + H is 0 / ffffffff, a word of the new V or of the output is 0 / ffffffff, or the block begins like its
         * predecessor.  Three call shapes, each against the model, maximum limit so that no reseed interferes. */
        FILE *f = special_open();
        special_t sp;
        if (!f) { if (a.batch == 0) emit_info("special corpus not available ($VERIF_SPECIAL)"); }
        else {
            while (special_next(f, &sp)) {
                uint8_t seed[32], custom[64];
                size_t cl, total, pos;
                int shape, blk;
                if (strcmp(sp.tok[0], "prng") || sp.ntok < 5) continue;
                special_unhex(sp.tok[1], seed, 32); cl = special_unhex(sp.tok[2], custom, sizeof custom); blk = atoi(sp.tok[3]);
                total = (size_t)(blk + 6) * 32 + 5;
                for (shape = 0; shape < 3; ++shape, ++idx) {
                    tinyjambu_prng_state_t st;
                    static cb_t cb;
                    rng_t r = rng_for(a.seed, 0x5BEF, (uint64_t)idx);
                    m_drbg_t sh;
                    static uint8_t got[64 * 32], exp[64 * 32];
                    if (!mine(&a, idx)) continue;
                    set_case("{\"h\":\"prng\",\"mode\":\"special\",\"i\":%ld,\"custom\":\"%s\",\"block\":%d,\"pattern\":\"%s\",\"shape\":%d}", idx, sp.tok[2], blk, sp.tok[sp.ntok - 1], shape);
                    ++n_eval; ++n_special; cls_add(mix64(0x5BEF, (uint64_t)idx)); if (idx % 29 == 0 || a.only >= 0) emit_sample();
                    cb_reset(&cb, a.seed, (uint64_t)idx, NULL, 0, 1); cb.fixed = seed;
                    memset(&st, 0x3D, sizeof st);
                    tinyjambu_prng_init_user(&st, entropy_cb, &cb, cl ? custom : NULL, cl);
                    tinyjambu_prng_set_reseed_limit(&st, 1048576);
                    m_drbg_init(&sh, seed, custom, cl); m_drbg_set_limit(&sh, 1048576);
                    for (pos = 0; pos < total; pos += 32) m_drbg_block(&sh, exp + pos, total - pos < 32 ? total - pos : 32);
                    memset(got, 0x99, sizeof got);
                    if (shape == 0) tinyjambu_prng_generate(&st, got, total);
                    else if (shape == 1) for (pos = 0; pos < total; pos += 32) tinyjambu_prng_generate(&st, got + pos, total - pos < 32 ? total - pos : 32);
                    else for (pos = 0; pos < total; ) { size_t n2 = 32 * (1 + rnd(&r, 3)); if (n2 > total - pos) n2 = total - pos; tinyjambu_prng_generate(&st, got + pos, n2); pos += n2; }
                    n_gen += 1; n_bytes_out += total; n_bytes_cmp += total;
                    if (cb.nev != 1) emit_viol("unexpected-entropy-request", "corpus history made %zu entropy requests, expected only the one at init", cb.nev);
                    if (memcmp(got, exp, total)) { size_t fd = 0; while (got[fd] == exp[fd]) ++fd; emit_viol("drbg-output-mismatch:special-value", "output differs from the model from byte %zu on (block %zu; the rare value %s occurs at block %d)", fd, fd / 32 + 1, sp.tok[sp.ntok - 1], blk); }
                    cb.fixed = NULL;
                    tinyjambu_prng_free(&st);
                }
            }
            fclose(f);
        }
        emit_stat("special_corpus_cases", n_special);
    } else if (!strcmp(a.mode, "hugecustom")) {
        /* thorough: a personalisation string of 2^32 + 5 bytes (sparse mapping).  Status, number of entropy requests and
         * the first 96 output bytes against the model (its hash runs with the batch permutation, pinned to the literal one) */
        if (mine(&a, idx)) {
            size_t cl = ((size_t)1 << 32) + 5;
            uint8_t *custom = (uint8_t *)mmap(NULL, cl + 4096, PROT_READ | PROT_WRITE, MAP_PRIVATE | MAP_ANONYMOUS | MAP_NORESERVE, -1, 0), exp[96];
            tinyjambu_prng_state_t st;
            static cb_t cb;
            rng_t r = rng_for(a.seed, 0xC057, 0);
            m_drbg_t d;
            int ok;
            size_t k;
            if (custom == MAP_FAILED) { perror("mmap"); return 2; }
            fill_random(&r, custom, 64); fill_random(&r, custom + cl - 64, 64); fill_random(&r, custom + ((size_t)1 << 31) - 8, 16);
            set_case("{\"h\":\"prng\",\"mode\":\"huge-personalisation\",\"i\":%ld,\"custom_len\":%zu}", idx, cl);
            ++n_eval; cls_add(mix64(0xC057, 1)); emit_sample();
            cb_reset(&cb, a.seed, 0xC057, NULL, 0, 1);
            ok = tinyjambu_prng_init_user(&st, entropy_cb, &cb, custom, cl);
            ++n_status;
            if (cb.nev != 1) emit_viol("init-entropy-requests", "init with a %zu byte personalisation made %zu entropy requests instead of 1", cl, cb.nev);
            else if (!ok) emit_viol("status-false-negative", "init with a %zu byte personalisation reported failure although 32 bytes were delivered", cl);
            if (cb.nev >= 1) {
                if (m_use_fast_perm(1)) { fprintf(stderr, "fast permutation disagrees with the literal model\n"); return 2; }
                m_drbg_init(&d, cb.ev[0].after, custom, cl);
                for (k = 0; k < 96; k += 32) m_drbg_block(&d, exp + k, 32);
                m_use_fast_perm(0);
                lib_generate(&st, &cb, 96, &r);
                n_bytes_cmp += 96;
                if (memcmp(g_out, exp, 96)) emit_viol("drbg-output-mismatch:huge-personalisation", "output after init with a %zu byte personalisation differs from the model", cl);
            }
            tinyjambu_prng_free(&st);
            munmap(custom, cl + 4096);
        }
    } else if (!strcmp(a.mode, "hugegen")) {
        /* thorough: ONE generate call of 2^32 + 7 bytes at the maximum limit against the same stream produced by 4096
         * calls of exactly 1 MiB (+ 7 bytes) from an identically seeded object.  The pieces are the shape the model-
         * checked 1 MiB streams have; in them every call after the first must begin with exactly one entropy request.
         * Equal bytes then mean the single call reseeded at the same places (the stream after a reseed depends on
         * where it happened), i.e. never more than the limit between requests, and 4096 requests in all. */
        if (mine(&a, idx)) {
            size_t total = ((size_t)1 << 32) + 7, piece = (size_t)1 << 20, pos, k, nbad = 0, firstbad = 0;
            uint8_t *big = (uint8_t *)mmap(NULL, total + 4096, PROT_READ | PROT_WRITE, MAP_PRIVATE | MAP_ANONYMOUS | MAP_NORESERVE, -1, 0);
            uint8_t *pc = (uint8_t *)malloc(piece + 64);
            tinyjambu_prng_state_t sa, sb;
            static cb_t ca, cbb;
            size_t reqA, wrong_piece_requests = 0;
            if (big == MAP_FAILED || !pc) { perror("mmap"); return 2; }
            set_case("{\"h\":\"prng\",\"mode\":\"huge-generate\",\"i\":%ld,\"bytes\":%zu,\"limit\":1048576}", idx, total);
            ++n_eval; cls_add(mix64(0x46E1, 1)); emit_sample();
            cb_reset(&ca, a.seed, 0x46E1, NULL, 0, 0); cb_reset(&cbb, a.seed, 0x46E1, NULL, 0, 0);
            tinyjambu_prng_init_user(&sa, entropy_cb, &ca, NULL, 0); tinyjambu_prng_set_reseed_limit(&sa, 1048576);
            tinyjambu_prng_init_user(&sb, entropy_cb, &cbb, NULL, 0); tinyjambu_prng_set_reseed_limit(&sb, 1048576);
            memset(big + total, 0x5C, 64);
            tinyjambu_prng_generate(&sa, big, total); ++n_gen; n_bytes_out += total;
            reqA = ca.nev - 1;
            for (k = 0; k < 64; ++k) if (big[total + k] != 0x5C) { emit_viol("generate-wrote-past-size", "generate(2^32+7) wrote beyond the requested size"); break; }
            for (pos = 0; pos < total; pos += piece) {
                size_t n = total - pos < piece ? total - pos : piece, before = cbb.nev;
                tinyjambu_prng_generate(&sb, pc, n); ++n_gen; n_bytes_out += n;
                if (cbb.nev - before != (pos ? 1u : 0u)) ++wrong_piece_requests;
                if (memcmp(pc, big + pos, n)) { if (!nbad) { for (k = 0; k < n && pc[k] == big[pos + k]; ++k) { } firstbad = pos + k; } ++nbad; }
                n_bytes_cmp += n;
            }
            n_events += ca.nev + cbb.nev;
            if (wrong_piece_requests) emit_viol("auto-reseed-missing-or-misplaced", "%zu of the 1 MiB pieces did not begin with exactly one entropy request", wrong_piece_requests);
            if (reqA != 4096) emit_viol("reseed-budget-exceeded", "one generate call of 2^32+7 bytes at limit 1 MiB made %zu entropy requests instead of 4096", reqA);
            if (nbad) emit_viol("drbg-output-mismatch:huge-generate", "a single 2^32+7 byte generate call differs from the same stream produced in 1 MiB calls, first at byte %zu (%zu pieces differ)", firstbad, nbad);
            tinyjambu_prng_free(&sa); tinyjambu_prng_free(&sb);
            munmap(big, total + 4096); free(pc);
        }
    } else if (!strcmp(a.mode, "realfeeds")) {
        for (i = 0; i < 3; ++i, ++idx) if (mine(&a, idx)) budget_real_feeds(&a, idx, (int)i - 1);
    } else if (!strcmp(a.mode, "faults")) {
        int p, s[12], c;
        static const size_t CL[3] = {0, 5, 100};
        /* all 5^4 patterns over the first four requests x 3 customisations */
        for (c = 0; c < 3; ++c)
            for (p = 0; p < 625; ++p, ++idx) {
                if (!mine(&a, idx)) continue;
                s[0] = FD[p % 5]; s[1] = FD[(p / 5) % 5]; s[2] = FD[(p / 25) % 5]; s[3] = FD[(p / 125) % 5];
                fault_pattern(&a, idx, s, 4, CL[c]);
            }
        /* random patterns over up to 12 requests (history has 1 + 1 + 3 = 5 requests; longer scripts are harmless) */
        for (i = 0; i < a.p3; ++i, ++idx) {
            rng_t r = rng_for(a.seed, 0xFA18, (uint64_t)i);
            int n = 1 + (int)rnd(&r, 12), j;
            if (!mine(&a, idx)) continue;
            for (j = 0; j < n; ++j) s[j] = (int)rnd(&r, 33);
            fault_pattern(&a, idx, s, n, rnd(&r, 120));
        }
        for (i = 0; i < 6; ++i, ++idx) if (mine(&a, idx)) null_callback(&a, idx, CL[i % 3], i >= 3);
    } else { fprintf(stderr, "bad mode\n"); return 2; }
    emit_stat("evaluations", n_eval); emit_stat("api_operations", n_ops); emit_stat("generate_calls", n_gen); emit_stat("feed_calls", n_feed);
    emit_stat("explicit_reseeds", n_reseed); emit_stat("set_limit_calls", n_setlimit); emit_stat("callback_events", n_events);
    emit_stat("automatic_reseed_events_predicted", n_auto_events); emit_stat("bytes_generated", n_bytes_out); emit_stat("bytes_compared_with_shadow", n_bytes_cmp);
    emit_stat("seed_status_judged", n_status); emit_stat("twin_feed_runs", n_twin); emit_stat("exhaustive_sequences", n_seq_exh);
    emit_stat("budget_segments_checked", n_budget_segments); emit_max("max_bytes_between_requests", max_since);
    emit_stat("near_counter_wrap_histories", n_near_wrap); emit_stat("max_limit_megabyte_streams_checked", n_long_streams); emit_stat("null_callback_child_runs", n_null_runs); emit_stat("delivery_patterns", n_patterns); emit_stat("block_pairs_checked_distinct", n_distinct_blocks_checked);
    finish();
    return 0;
}
