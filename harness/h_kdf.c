/*
 * HKDF / PBKDF2 monitor (properties C13, C14).
 *   --mode hkdf    p1 = number of (key, salt, info) streams; per stream the model's full 8160-byte output is
 *                  computed once and the library is judged on one-shot lengths and on partitions into expand calls
 *   --mode pbkdf2  p1 = max dense outlen; p3 = number of random parameter sets
 */
#include "common.h"
#include "model.h"
#include <sys/mman.h>
#include "TinyJAMBU.h"

#define CAP 8160u
static gbuf_t gOUT, gKEY, gSALT, gINFO;
static unsigned long long n_eval, n_oneshot, n_refused, n_partitions, n_expand_calls, n_expand_refused, n_bytes,
    n_zero_tail_bytes, n_pb, n_pb_blocks, n_prefix, n_relational;

static const unsigned LENS[] = {0, 1, 31, 32, 33, 64, 65, 100};

static void bytes_mismatch(const char *key, const char *what, const uint8_t *exp, const uint8_t *got, size_t n)
{
    char a[80], b[80];
    size_t f = 0;
    while (f < n && exp[f] == got[f]) ++f;
    hexs(a, exp + f, n - f, 24); hexs(b, got + f, n - f, 24);
    emit_viol(key, "%s: first difference at byte %zu of %zu: expected %s got %s", what, f, n, a, b);
}

/* ------------------------------------------------------------------ C13 */

static void hkdf_stream(const args_t *a, long idx)
{
    rng_t r = rng_for(a->seed, 0x48DF, (uint64_t)idx);
    size_t kl = LENS[idx % 8], sl = LENS[(idx / 8) % 8], il = LENS[(idx / 64 + idx) % 8];
    int bc = (int)(idx % BC_N), nullmode = (int)((idx >> 1) & 1), t, full = a->thorough || idx % 4 == 0;
    static uint8_t model[CAP + 64];
    uint8_t *key, *salt, *info, *out;
    size_t oneshot[40];
    int no = 0;
    if (idx >= 512) { kl = rnd(&r, 200); sl = rnd(&r, 130); il = rnd(&r, 200); }
    if (idx % 16 == 7) {        /* power-of-two neighbourhoods for one of the three inputs */
        static const unsigned SP[] = {127, 128, 129, 255, 256, 257, 511, 512, 513, 1023, 1024, 1025, 4095, 4096, 4097, 65535, 65536, 65537};
        unsigned v = SP[(idx / 16) % 18];
        if ((idx / 16) % 3 == 0) kl = v; else if ((idx / 16) % 3 == 1) sl = v; else il = v;
    }
    set_case("{\"h\":\"kdf\",\"mode\":\"hkdf\",\"i\":%ld,\"keylen\":%zu,\"saltlen\":%zu,\"infolen\":%zu,\"bytes\":\"%s\",\"null0\":%d}",
             idx, kl, sl, il, bc_name[bc], nullmode);
    ++n_eval;
    cls_add(mix64((uint64_t)(kl * 1000000 + sl * 1000 + il), (uint64_t)bc));
    if (idx % 37 == 0 || a->only >= 0) emit_sample();
    key = gb_place(&gKEY, kl, (int)(idx % 3), (unsigned)(idx & 7), nullmode, 0);   if (kl) fill_class(&r, key, kl, bc);
    salt = gb_place(&gSALT, sl, (int)((idx + 1) % 3), (unsigned)((idx >> 2) & 7), nullmode, 0); if (sl) fill_class(&r, salt, sl, bc == BC_ZERO ? BC_RANDOM : bc);
    info = gb_place(&gINFO, il, (int)((idx + 2) % 3), (unsigned)((idx >> 4) & 7), nullmode, 0); if (il) fill_class(&r, info, il, bc);
    /* inputs may legally share memory: the salt and/or the info string inside the key buffer */
    if (sl && sl <= kl && idx % 5 == 1) salt = key + (kl - sl);
    if (il && il <= kl && idx % 5 == 3) info = key;
    gb_readonly(&gKEY); gb_readonly(&gSALT); gb_readonly(&gINFO);
    m_hkdf(model, full ? CAP : 700, key, kl, salt, sl, info, il);

    /* one-shot lengths */
    for (t = 0; t < 6; ++t) oneshot[no++] = rnd(&r, 301);
    oneshot[no++] = 0; oneshot[no++] = 1; oneshot[no++] = 32; oneshot[no++] = 33; oneshot[no++] = (size_t)(idx % 301);
    if (full) {
        size_t m32 = 32 * (1 + rnd(&r, 254));
        oneshot[no++] = m32 - 1; oneshot[no++] = m32; oneshot[no++] = m32 + 1;
        oneshot[no++] = 32 * (size_t)(1 + (idx % 255)) + 1; oneshot[no++] = 32 * (size_t)(1 + (idx % 255)) - 1;
        oneshot[no++] = 8159; oneshot[no++] = 8160;
    }
    for (t = 0; t < no; ++t) {
        size_t ol = oneshot[t];
        int rc;
        if (ol > CAP) ol = CAP;
        out = gb_place(&gOUT, ol, (t % 3 == 2) ? PL_MID : PL_END, (unsigned)(t & 7), (t >> 1) & 1, 0xE1);
        MSAN_POISON(out, ol);
        if (GUARD_TRY()) { rc = tinyjambu_hkdf(out, ol, key, kl, salt, sl, info, il); GUARD_END(); }
        else { emit_viol("guard-fault:tinyjambu_hkdf", "fault at %p outlen=%zu", g_fault_addr, ol); continue; }
        ++n_oneshot; n_bytes += ol;
        if (ol) MSAN_CHECK(out, ol);
        if (rc != 0) emit_viol("hkdf-oneshot-refused", "outlen=%zu (<= 8160) returned %d", ol, rc);
        else if (ol && memcmp(out, model, ol)) bytes_mismatch(ol <= 32 ? "hkdf-spec-mismatch:first-block" : "hkdf-spec-mismatch:later-blocks", "one-shot HKDF differs from RFC 5869 over the model HMAC", model, out, ol);
        if (gb_canary_bad(&gOUT)) emit_viol("wrote-outside:tinyjambu_hkdf", "canary next to the %zu-byte output modified", ol);
    }
    /* refusals: nothing may be written */
    {
        static const size_t big[] = {8161, 8192, 10000, 65536, (size_t)-1, ((size_t)1 << 32) + 5};
        for (t = 0; t < 6; ++t) {
            size_t ol = big[t], have = ol < 12000 ? ol : 9000, i;
            int rc;
            out = gb_place(&gOUT, have, PL_END, 0, 0, 0xC9);
            if (GUARD_TRY()) { rc = tinyjambu_hkdf(out, ol, key, kl, salt, sl, info, il); GUARD_END(); }
            else { emit_viol("hkdf-refusal-wrote:fault", "outlen=%zu: fault at %p", ol, g_fault_addr); continue; }
            ++n_refused;
            if (rc != -1) emit_viol("hkdf-cap-not-enforced:oneshot", "outlen=%zu (> 8160) returned %d, expected -1", ol, rc);
            for (i = 0; i < have; ++i)
                if (out[i] != 0xC9) { emit_viol("hkdf-refusal-wrote:oneshot", "refused request outlen=%zu wrote to the buffer at offset %zu", ol, i); break; }
        }
    }
    /* relational: empty salt == 32 zero bytes */
    if (sl == 0) {
        uint8_t o1[64], o2[64], z[32];
        memset(z, 0, 32);
        tinyjambu_hkdf(o1, 64, key, kl, NULL, 0, info, il);
        tinyjambu_hkdf(o2, 64, key, kl, z, 32, info, il);
        ++n_relational;
        if (memcmp(o1, o2, 64)) bytes_mismatch("hkdf-empty-salt", "empty salt differs from 32 zero bytes", o2, o1, 64);
    }
    /* incremental partitions */
    for (t = 0; t < (full ? 6 : 2); ++t) {
        static const unsigned sz[] = {0, 1, 5, 31, 32, 33, 64, 100, 1000, 2500};
        size_t target = full ? (t == 0 ? 9000 : t == 1 ? CAP : rnd(&r, 9000)) : rnd(&r, 700), cum = 0;
        tinyjambu_hkdf_state_t st;
        char parts[300] = "";
        size_t pl = 0;
        int calls = 0, after = 0;
        fill_random(&r, (uint8_t *)&st, sizeof st);
        MSAN_POISON(&st, sizeof st);
        tinyjambu_hkdf_extract(&st, key, kl, salt, sl);
        ++n_partitions;
        while ((cum < target || after < 2) && calls < 400) {
            size_t n = sz[rnd(&r, 10)], i, lim;
            int rc, expect;
            if (cum < target && n > target - cum && rnd(&r, 2)) n = target - cum;
            if (cum >= target) ++after;
            if (!full && cum + n > 700) n = 700 - cum;
            out = gb_place(&gOUT, n, PL_END, 0, (int)rnd(&r, 2), 0x77);
            MSAN_POISON(out, n);
            if (GUARD_TRY()) { rc = tinyjambu_hkdf_expand(&st, info, il, out, n); GUARD_END(); }
            else { emit_viol("guard-fault:tinyjambu_hkdf_expand", "fault at %p n=%zu cum=%zu", g_fault_addr, n, cum); break; }
            ++n_expand_calls; ++calls;
            if (pl + 8 < sizeof parts) pl += (size_t)snprintf(parts + pl, sizeof parts - pl, "%zu,", n);
            set_case("{\"h\":\"kdf\",\"mode\":\"hkdf\",\"i\":%ld,\"keylen\":%zu,\"saltlen\":%zu,\"infolen\":%zu,\"bytes\":\"%s\",\"null0\":%d,\"expand_sizes\":\"%s\"}",
                     idx, kl, sl, il, bc_name[bc], nullmode, parts);
            if (n) MSAN_CHECK(out, n);
            expect = (cum + n > CAP) ? -1 : 0;
            if (rc != expect && !(n == 0 && cum >= CAP)) {   /* a zero-length request is not a request beyond the cap */
                emit_viol(expect ? "hkdf-cap-not-enforced:incremental" : "hkdf-incremental-refused", "expand of %zu bytes at cumulative offset %zu returned %d, expected %d", n, cum, rc, expect);
                if (expect) break;
            }
            lim = cum >= CAP ? 0 : (cum + n > CAP ? CAP - cum : n);      /* bytes that are still key material */
            if (lim && memcmp(out, model + cum, lim)) { bytes_mismatch("hkdf-incremental-mismatch", "concatenated expand output differs from the model", model + cum, out, lim); break; }
            for (i = lim; i < n; ++i)
                if (out[i]) { emit_viol("hkdf-past-cap-not-zero", "byte at stream offset %zu (> 8160) is %02x, must be zero", cum + i, out[i]); break; }
            n_zero_tail_bytes += n - lim;
            if (expect) ++n_expand_refused;
            n_bytes += n;
            cum += n;
            if (!full && cum >= 700) break;
        }
        tinyjambu_hkdf_free(&st);
    }
    gb_writable(&gKEY); gb_writable(&gSALT); gb_writable(&gINFO);
}

/* ------------------------------------------------------------------ C14 */

static const uint8_t *OV_PW, *OV_SALT;
static void pbkdf2_case(const args_t *a, long idx, size_t outlen, size_t pl, size_t sl, unsigned long count)
{
    rng_t r = rng_for(a->seed, 0x9BDF, (uint64_t)idx);
    int bc = (int)(idx % BC_N), nullmode = (int)(idx & 1);
    uint8_t *pw, *salt, *out;
    static uint8_t model[20064];
    set_case("{\"h\":\"kdf\",\"mode\":\"pbkdf2\",\"i\":%ld,\"outlen\":%zu,\"pwlen\":%zu,\"saltlen\":%zu,\"count\":%lu,\"bytes\":\"%s\",\"null0\":%d}",
             idx, outlen, pl, sl, count, bc_name[bc], nullmode);
    ++n_eval;
    cls_add(mix64((uint64_t)(outlen * 1000 + pl), (uint64_t)(sl * 100000 + count)));
    if (idx % 97 == 0 || a->only >= 0) emit_sample();
    pw = gb_place(&gKEY, pl, (int)(idx % 3), (unsigned)(idx & 7), nullmode, 0);     if (pl) fill_class(&r, pw, pl, bc);
    salt = gb_place(&gSALT, sl, (int)((idx + 1) % 3), (unsigned)((idx >> 3) & 7), nullmode, 0); if (sl) fill_class(&r, salt, sl, bc);
    if (OV_PW) { if (pl) memcpy(pw, OV_PW, pl); if (sl) memcpy(salt, OV_SALT, sl); }      /* corpus entry: exactly these bytes */
    else if (sl && sl <= pl && idx % 5 == 2) salt = pw + (pl - sl);                          /* the salt may legally lie inside the password buffer */
    gb_readonly(&gKEY); gb_readonly(&gSALT);
    out = gb_place(&gOUT, outlen, (idx % 4 == 3) ? PL_MID : PL_END, (unsigned)((idx >> 1) & 7), nullmode, 0x3D);
    MSAN_POISON(out, outlen);
    if (GUARD_TRY()) { tinyjambu_pbkdf2(out, outlen, pw, pl, salt, sl, count); GUARD_END(); }
    else { emit_viol("guard-fault:tinyjambu_pbkdf2", "fault at %p (outlen=%zu: wrote or read outside the declared ranges)", g_fault_addr, outlen); goto done; }
    if (outlen) MSAN_CHECK(out, outlen);
    ++n_pb; n_pb_blocks += (outlen + 31) / 32; n_bytes += outlen;
    if (gb_canary_bad(&gOUT)) emit_viol("wrote-outside:tinyjambu_pbkdf2", "canary next to the %zu-byte output modified", outlen);
    m_pbkdf2(model, outlen, pw, pl, salt, sl, count);
    if (outlen && memcmp(out, model, outlen)) {
        size_t f = 0;
        char key[80];
        while (out[f] == model[f]) ++f;
        snprintf(key, sizeof key, "pbkdf2-spec-mismatch:%s", f < 32 ? (count > 1 ? "first-block-chain" : "first-block") : f >= 255 * 32 ? "block-index-above-255" : (outlen % 32 && f >= outlen - outlen % 32) ? "last-partial-block" : "later-blocks");
        bytes_mismatch(key, "PBKDF2 differs from RFC 8018 over the model HMAC", model, out, outlen);
    }
    /* count 0 behaves as 1 */
    if (count <= 1 && outlen && outlen <= 100) {
        uint8_t o2[128];
        tinyjambu_pbkdf2(o2, outlen, pw, pl, salt, sl, count ? 0 : 1);
        ++n_relational;
        if (memcmp(o2, out, outlen)) bytes_mismatch("pbkdf2-count0", "count 0 and count 1 give different output", out, o2, outlen);
    }
    /* prefix property, library only */
    if (outlen >= 2 && outlen <= 200) {
        uint8_t o2[256];
        size_t shorter = 1 + rnd(&r, (uint32_t)outlen - 1);
        tinyjambu_pbkdf2(o2, shorter, pw, pl, salt, sl, count);
        ++n_prefix;
        if (memcmp(o2, out, shorter)) bytes_mismatch("pbkdf2-prefix", "a shorter output is not a prefix of the longer one", out, o2, shorter);
    }
done:
    gb_writable(&gKEY); gb_writable(&gSALT);
}

int main(int argc, char **argv)
{
    args_t a = parse_args(argc, argv);
    long idx = 0, i;
    install_crash_handlers();
    gb_init(&gOUT, "out", 1 << 15); gb_init(&gKEY, "key", 1 << 17); gb_init(&gSALT, "salt", 1 << 17); gb_init(&gINFO, "info", 1 << 17);
    if (!strcmp(a.mode, "hkdf")) {
        for (i = 0; i < a.p1; ++i, ++idx) if (mine(&a, idx)) hkdf_stream(&a, idx);
    } else if (!strcmp(a.mode, "pbkdf2")) {
        static const unsigned PWL[] = {0, 1, 63, 64, 65, 100, 200};
        static const unsigned long CNT[] = {0, 1, 2, 3, 4, 5, 10};
        long D = a.p1 > 0 ? a.p1 : 100, rep;
        for (i = 0; i <= D; ++i)
            for (rep = 0; rep < (a.thorough ? 4 : 1); ++rep, ++idx)
                if (mine(&a, idx)) pbkdf2_case(&a, idx, (size_t)i, PWL[(i + rep * 3) % 7], (size_t)((i * 7 + rep * 11) % 41), CNT[(i + rep) % 7]);
        /* block index > 255 (all four bytes of INT32BE), long outputs */
        { static const size_t BIG[] = {255 * 32 + 5, 8200, 20000, 256 * 32, 257 * 32 - 1};
          for (i = 0; i < 5; ++i, ++idx) if (mine(&a, idx)) pbkdf2_case(&a, idx, BIG[i], PWL[i % 7], (size_t)(i * 9), 1 + (unsigned long)(i == 1)); }
        /* large counts, short outputs */
        { static const unsigned long BC[] = {100, 1000, 4096, 257, 65};
          for (i = 0; i < (a.thorough ? 5 : 3); ++i, ++idx) if (mine(&a, idx)) pbkdf2_case(&a, idx, i % 2 ? 33 : 20, PWL[(i + 2) % 7], 8, BC[i]); }
        { static const unsigned SP[13] = {127, 128, 129, 255, 256, 257, 1023, 1024, 1025, 4096, 65535, 65536, 65537};
          for (i = 0; i < 13; ++i, ++idx) if (mine(&a, idx)) pbkdf2_case(&a, idx, 40 + (size_t)i, SP[i], (size_t)(i * 5), 2);       /* special password lengths */
          for (i = 0; i < 13; ++i, ++idx) if (mine(&a, idx)) pbkdf2_case(&a, idx, 33, (size_t)(i * 9), SP[i], 1 + (unsigned long)(i % 3)); }  /* special salt lengths */
        /* iteration counts beyond 16 bits: too slow for the model, but a count that is narrowed to 16 bits makes
         * count = 65536 + k indistinguishable from k (relational oracle, library only) */
        for (i = 0; i < 2; ++i, ++idx) {
            uint8_t o1[40], o2[40], o3[40];
            static const uint8_t pw[9] = "password", st[4] = {1, 2, 3, 4};
            unsigned long k = 3 + (unsigned long)i;
            if (!mine(&a, idx)) continue;
            set_case("{\"h\":\"kdf\",\"mode\":\"pbkdf2-count-truncation\",\"i\":%ld,\"counts\":[%lu,%lu,%lu]}", idx, k, 65536 + k, 65535 + k);
            ++n_eval; ++n_relational; cls_add(mix64(0x9BCC, (uint64_t)i)); emit_sample();
            tinyjambu_pbkdf2(o1, 40, pw, 8, st, 4, k);
            tinyjambu_pbkdf2(o2, 40, pw, 8, st, 4, 65536 + k);
            tinyjambu_pbkdf2(o3, 40, pw, 8, st, 4, 65535 + k);
            if (!memcmp(o1, o2, 40)) emit_viol("pbkdf2-count-truncated:16-bit", "count=%lu and count=%lu give the same output", k, 65536 + k);
            if (!memcmp(o2, o3, 40)) emit_viol("pbkdf2-count-ignored", "count=%lu and count=%lu give the same output", 65536 + k, 65535 + k);
        }
        for (i = 0; i < a.p3; ++i, ++idx) {
            rng_t r = rng_for(a.seed, 0x9B02, (uint64_t)i);
            size_t ol = rnd(&r, 6) == 0 ? rnd(&r, 2000) : rnd(&r, 130);
            unsigned long cnt = (rnd(&r, 12) == 0 && ol <= 200) ? rnd(&r, 200) : rnd(&r, 8);
            if (mine(&a, idx)) pbkdf2_case(&a, idx, ol, rnd(&r, 3) ? rnd(&r, 260) : PWL[rnd(&r, 7)], rnd(&r, 80), cnt);
        }
    } else if (!strcmp(a.mode, "special")) {
        /* corpus (model/mine.c): (password, salt) for which, at iteration j of block 1, a word of the accumulator equals
         * the same word of U_j, or a word of U_j is 0 / ffffffff: counts j-1, j, j+1 and 2j against the model */
        FILE *f = special_open();
        special_t sp;
        unsigned long long n_special = 0;
        if (!f) { if (a.batch == 0) emit_info("special corpus not available ($VERIF_SPECIAL)"); }
        else {
            while (special_next(f, &sp)) {
                uint8_t pw[64], st[64];
                size_t pl, sl;
                int j, q;
                if (strcmp(sp.tok[0], "pbkdf2") || sp.ntok < 5) continue;
                pl = special_unhex(sp.tok[1], pw, sizeof pw); sl = special_unhex(sp.tok[2], st, sizeof st); j = atoi(sp.tok[3]);
                for (q = 0; q < 4; ++q, ++idx) {
                    unsigned long cnt = q == 0 ? (unsigned long)j - 1 : q == 1 ? (unsigned long)j : q == 2 ? (unsigned long)j + 1 : 2ul * (unsigned long)j;
                    if (mine(&a, idx)) { ++n_special; OV_PW = pw; OV_SALT = st; pbkdf2_case(&a, idx, q & 1 ? 32 : 45, pl, sl, cnt); OV_PW = OV_SALT = NULL; }
                }
            }
            fclose(f);
        }
        emit_stat("special_corpus_cases", n_special);
    } else if (!strcmp(a.mode, "pbkdf2huge")) {
        /* thorough: ONE call producing 2^24 + 2 blocks (512 MiB, about a minute): all bytes of the big-endian block index
         * are exercised; sampled blocks are judged against the model (count = 1: T_i = HMAC(P, S || INT(i))) */
        if (mine(&a, idx)) {
            static const unsigned long BI[] = {1, 2, 255, 256, 257, 65535, 65536, 65537, 0xFFFFFFul, 0x1000000ul, 0x1000001ul, 0x1000002ul, 0x800000ul, 0x123456ul};
            size_t nblk = ((size_t)1 << 24) + 2, outlen = nblk * 32 - 5, k;
            uint8_t *out = (uint8_t *)mmap(NULL, outlen + 4096, PROT_READ | PROT_WRITE, MAP_PRIVATE | MAP_ANONYMOUS | MAP_NORESERVE, -1, 0);
            uint8_t pw[11], sb[20 + 4], e[32];
            rng_t r = rng_for(a.seed, 0x9BFF, 0);
            if (out == MAP_FAILED) { perror("mmap"); return 2; }
            fill_random(&r, pw, sizeof pw); fill_random(&r, sb, 20);
            set_case("{\"h\":\"kdf\",\"mode\":\"pbkdf2-huge\",\"i\":%ld,\"outlen\":%zu,\"pwlen\":11,\"saltlen\":20,\"count\":1}", idx, outlen);
            ++n_eval; ++n_pb; n_pb_blocks += nblk; cls_add(mix64(0x9BFF, 1)); emit_sample();
            memset(out + outlen, 0xA5, 64);
            tinyjambu_pbkdf2(out, outlen, pw, sizeof pw, sb, 20, 1);
            for (k = 0; k < 64; ++k) if (out[outlen + k] != 0xA5) { emit_viol("wrote-outside:tinyjambu_pbkdf2", "bytes after the %zu-byte output modified", outlen); break; }
            for (k = 0; k < sizeof BI / sizeof BI[0]; ++k) {
                size_t off = (size_t)(BI[k] - 1) * 32, n = off + 32 <= outlen ? 32 : outlen - off;
                sb[20] = (uint8_t)(BI[k] >> 24); sb[21] = (uint8_t)(BI[k] >> 16); sb[22] = (uint8_t)(BI[k] >> 8); sb[23] = (uint8_t)BI[k];
                m_hmac(e, pw, sizeof pw, sb, 24);
                n_bytes += n;
                if (memcmp(out + off, e, n)) { emit_viol("pbkdf2-spec-mismatch:block-index-above-2^16", "block %lu (offset %zu) of a %zu-byte output differs from HMAC(P, S || INT(%lu))", BI[k], off, outlen, BI[k]); break; }
            }
            /* no block equals block 1 or 2 again (index bytes dropped), sampled every 4099 blocks */
            for (k = 4099; k < nblk - 1; k += 4099) if (!memcmp(out + k * 32, out, 32) || !memcmp(out + k * 32, out + 32, 32)) { emit_viol("pbkdf2-block-repeats", "block %zu repeats block 1 or 2", k + 1); break; }
            munmap(out, outlen + 4096);
        }
    } else { fprintf(stderr, "bad mode\n"); return 2; }
    emit_stat("evaluations", n_eval); emit_stat("hkdf_oneshot_calls", n_oneshot); emit_stat("hkdf_oneshot_refusals_checked", n_refused);
    emit_stat("hkdf_partitions", n_partitions); emit_stat("hkdf_expand_calls", n_expand_calls); emit_stat("hkdf_expand_refusals", n_expand_refused);
    emit_stat("bytes_compared", n_bytes); emit_stat("bytes_past_cap_checked_zero", n_zero_tail_bytes);
    emit_stat("pbkdf2_calls", n_pb); emit_stat("pbkdf2_blocks", n_pb_blocks); emit_stat("prefix_checks", n_prefix); emit_stat("relational_checks", n_relational);
    finish();
    return 0;
}
