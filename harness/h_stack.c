/* h_stack.c - the library on a small thread stack with large inputs (C06, environment dimension).
 *
 * Every public entry point is called once with 1 MiB inputs (message, AD, key, salt, info, password, personalisation,
 * feed data) and once with 16-byte inputs, on a thread whose stack is 128 KiB (musl's default, a common worker-thread
 * size) in a forked child.  A stack need that grows with an input length (variable-length array, alloca, recursion)
 * overflows that stack: the child dies with SIGSEGV and the case is reported.  The stack bytes actually dirtied by each
 * call are measured by painting the stack below the frame (reported as statistics, not judged).
 */
#include "common.h"
#include "TinyJAMBU.h"
#include <pthread.h>
#include <sys/wait.h>

#define BIG (1u << 20)
#define STACK (128u * 1024u)
static uint8_t *IN1, *IN2, *IN3, *OUT;
static size_t g_len;
static int g_api;
static volatile size_t g_used;

static size_t ent_cb(void *ud, unsigned char *buf, size_t size) { size_t i; (void)ud; for (i = 0; i < size; ++i) buf[i] = (uint8_t)(i * 3 + 1); return size; }

static const char *const API[] = {"aead128", "aead192", "aead256", "siv128", "siv192", "siv256", "hash", "hash-stream", "hmac", "hmac-stream",
                                  "hkdf", "hkdf-stream", "pbkdf2", "prng-init+generate", "prng-feed+reseed", "clean"};
#define NAPI ((int)(sizeof API / sizeof API[0]))

static void call_api(int api, size_t n)
{
    size_t clen = 0, mlen = 0;
    uint8_t key[32], nonce[12], d[32];
    memset(key, 7, sizeof key); memset(nonce, 9, sizeof nonce);
    switch (api) {
    case 0: tinyjambu_128_aead_encrypt(OUT, &clen, IN1, n, IN2, n, nonce, key); tinyjambu_128_aead_decrypt(OUT, &mlen, OUT, clen, IN2, n, nonce, key); break;
    case 1: tinyjambu_192_aead_encrypt(OUT, &clen, IN1, n, IN2, n, nonce, key); tinyjambu_192_aead_decrypt(OUT, &mlen, OUT, clen, IN2, n, nonce, key); break;
    case 2: tinyjambu_256_aead_encrypt(OUT, &clen, IN1, n, IN2, n, nonce, key); tinyjambu_256_aead_decrypt(OUT, &mlen, OUT, clen, IN2, n, nonce, key); break;
    case 3: tinyjambu_128_siv_encrypt(OUT, &clen, IN1, n, IN2, n, nonce, key); tinyjambu_128_siv_decrypt(OUT, &mlen, OUT, clen, IN2, n, nonce, key); break;
    case 4: tinyjambu_192_siv_encrypt(OUT, &clen, IN1, n, IN2, n, nonce, key); tinyjambu_192_siv_decrypt(OUT, &mlen, OUT, clen, IN2, n, nonce, key); break;
    case 5: tinyjambu_256_siv_encrypt(OUT, &clen, IN1, n, IN2, n, nonce, key); tinyjambu_256_siv_decrypt(OUT, &mlen, OUT, clen, IN2, n, nonce, key); break;
    case 6: tinyjambu_hash(d, IN1, n); break;
    case 7: { tinyjambu_hash_state_t s; tinyjambu_hash_init(&s); tinyjambu_hash_update(&s, IN1, n / 2 + 3); tinyjambu_hash_update(&s, IN1, n); tinyjambu_hash_finalize(&s, d); tinyjambu_hash_free(&s); break; }
    case 8: tinyjambu_hmac(d, IN2, n, IN1, n); break;
    case 9: { tinyjambu_hmac_state_t s; tinyjambu_hmac_init(&s, IN2, n); tinyjambu_hmac_update(&s, IN1, n); tinyjambu_hmac_finalize(&s, IN2, n, d); tinyjambu_hmac_free(&s); break; }
    case 10: tinyjambu_hkdf(OUT, 8160, IN1, n, IN2, n, IN3, n); break;
    case 11: { tinyjambu_hkdf_state_t s; tinyjambu_hkdf_extract(&s, IN1, n, IN2, n); tinyjambu_hkdf_expand(&s, IN3, n, OUT, 5000); tinyjambu_hkdf_expand(&s, IN3, n, OUT, 5000); tinyjambu_hkdf_free(&s); break; }
    case 12: tinyjambu_pbkdf2(OUT, 100, IN1, n, IN2, n, 2); break;
    case 13: { tinyjambu_prng_state_t s; tinyjambu_prng_init_user(&s, ent_cb, NULL, IN3, n); tinyjambu_prng_generate(&s, OUT, n); tinyjambu_prng_free(&s); break; }
    case 14: { tinyjambu_prng_state_t s; tinyjambu_prng_init_user(&s, ent_cb, NULL, NULL, 0); tinyjambu_prng_feed(&s, IN1, n); tinyjambu_prng_reseed(&s); tinyjambu_prng_set_reseed_limit(&s, n); tinyjambu_prng_generate(&s, OUT, 100); tinyjambu_prng_free(&s); break; }
    default: tinyjambu_clean(OUT, (unsigned)n); break;
    }
}

static void *thread_main(void *arg)
{
    /* paint the stack below this frame, call, and look how deep the paint was disturbed */
    volatile uint8_t marker;
    uint8_t *top = (uint8_t *)((uintptr_t)&marker & ~(uintptr_t)63) - 512, *lo = top - (STACK - 24 * 1024), *p;
    (void)arg;
    for (p = lo; p < top; ++p) *p = 0xA5;
    call_api(g_api, g_len);
    for (p = lo; p < top && *p == 0xA5; ++p) { }
    g_used = (size_t)(top - p);
    return NULL;
}

int main(int argc, char **argv)
{
    args_t a = parse_args(argc, argv);
    long idx = 0;
    int api, big;
    unsigned long long n_eval = 0, max_used_small = 0, max_used_big = 0;
    size_t i;
    IN1 = (uint8_t *)malloc(BIG + 64); IN2 = (uint8_t *)malloc(BIG + 64); IN3 = (uint8_t *)malloc(BIG + 64); OUT = (uint8_t *)malloc(BIG + 8192 + 64);
    if (!IN1 || !IN2 || !IN3 || !OUT) return 2;
    for (i = 0; i < BIG; ++i) { IN1[i] = (uint8_t)(i * 7 + 1); IN2[i] = (uint8_t)(i * 13 + 5); IN3[i] = (uint8_t)(i * 29 + 3); }
    for (api = 0; api < NAPI; ++api)
        for (big = 0; big < 2; ++big, ++idx) {
            int pfd[2], st = 0;
            pid_t pid;
            size_t used = 0;
            if (!mine(&a, idx)) continue;
            g_api = api; g_len = big ? BIG : 16;
            set_case("{\"h\":\"stack\",\"i\":%ld,\"api\":\"%s\",\"input_lengths\":%zu,\"thread_stack\":%u}", idx, API[api], g_len, STACK);
            ++n_eval; cls_add(mix64(0x57AC, (uint64_t)idx)); emit_sample();
            fflush(stdout);
            if (pipe(pfd)) return 2;
            pid = fork();
            if (pid < 0) return 2;
            if (pid == 0) {
                pthread_t th; pthread_attr_t at;
                signal(SIGSEGV, SIG_DFL); signal(SIGBUS, SIG_DFL);
                pthread_attr_init(&at); pthread_attr_setstacksize(&at, STACK);
                if (pthread_create(&th, &at, thread_main, NULL)) _exit(3);
                pthread_join(th, NULL);
                used = g_used;
                if (write(pfd[1], &used, sizeof used) != (ssize_t)sizeof used) _exit(4);
                _exit(0);
            }
            close(pfd[1]);
            if (read(pfd[0], &used, sizeof used) != (ssize_t)sizeof used) used = 0;
            close(pfd[0]);
            waitpid(pid, &st, 0);
            if (WIFSIGNALED(st)) {
                char key[96];
                snprintf(key, sizeof key, "stack-overflow:%s", API[api]);
                emit_viol(key, "%s with %zu-byte inputs died with signal %d on a thread with a %u-byte stack (with 16-byte inputs it needs a few hundred bytes): its stack need grows with an input length",
                          API[api], g_len, WTERMSIG(st), STACK);
            } else if (!WIFEXITED(st) || WEXITSTATUS(st)) { fprintf(stderr, "child failed: status %d\n", st); return 2; }
            else { if (big) { if (used > max_used_big) max_used_big = used; } else if (used > max_used_small) max_used_small = used; }
        }
    emit_stat("evaluations", n_eval); emit_stat("small_stack_calls", n_eval);
    printf("M max_stack_bytes_dirtied_with_16_byte_inputs %llu\nM max_stack_bytes_dirtied_with_1MiB_inputs %llu\n", max_used_small, max_used_big);
    finish();
    return 0;
}
