/*
 * AEAD / SIV monitor (properties C01, C02, C03, C04, C08, C09).
 *
 * One case = one (variant, adlen, mlen, byte class, placement, alignment, aliasing) tuple with
 * key/nonce/AD/plaintext derived from (seed, case index).  Which batteries run is chosen by
 * --mode (comma list):
 *   rt      round trip, lengths, in-place == out-of-place                      (C01 / C08)
 *   model   library == reference model in both directions                      (C02 / C09)
 *   tamper  accept-iff-tag batteries with exact expected verdicts from model   (C03 / C08)
 *   zero    every rejection leaves an all-zero plaintext region                 (C04)
 *   pairs   SIV nonce-reuse pairs + AEAD positive control, determinism         (C09)
 *   siv     run on the three SIV variants instead of the three AEAD variants
 *   both    run on all six variants
 * Parameters: --p1 window W (adlen, mlen in 0..W), --p2 repetitions per pair, --p3 number of long cases.
 */
#include "common.h"
#include "model.h"
#include "TinyJAMBU.h"

typedef void (*enc_fn)(unsigned char *, size_t *, const unsigned char *, size_t, const unsigned char *, size_t,
                       const unsigned char *, const unsigned char *);
typedef int (*dec_fn)(unsigned char *, size_t *, const unsigned char *, size_t, const unsigned char *, size_t,
                      const unsigned char *, const unsigned char *);
typedef struct { const char *name; int ks; int siv; enc_fn enc; dec_fn dec; } variant_t;

static const variant_t VARS[6] = {
    {"aead128", 16, 0, tinyjambu_128_aead_encrypt, tinyjambu_128_aead_decrypt},
    {"aead192", 24, 0, tinyjambu_192_aead_encrypt, tinyjambu_192_aead_decrypt},
    {"aead256", 32, 0, tinyjambu_256_aead_encrypt, tinyjambu_256_aead_decrypt},
    {"siv128", 16, 1, tinyjambu_128_siv_encrypt, tinyjambu_128_siv_decrypt},
    {"siv192", 24, 1, tinyjambu_192_siv_encrypt, tinyjambu_192_siv_decrypt},
    {"siv256", 32, 1, tinyjambu_256_siv_encrypt, tinyjambu_256_siv_decrypt},
};


static int F_RT, F_MODEL, F_TAMPER, F_ZERO, F_PAIRS;
static unsigned long long n_special, n_shared_inputs;
static unsigned long long n_null_out;
static unsigned long long n_cases, n_enc, n_dec, n_verdict_acc, n_verdict_rej, n_model_cmp, n_bytes_cmp,
    n_inplace, n_forged_ok, n_zero_regions, n_zero_bytes, n_guard_end, n_guard_start, n_mid, n_null, n_pairs,
    n_ctl_pairs, n_short, n_checktag, n_long, n_adjacent;

static gbuf_t gC, gM, gAD, gK, gN, gM2, gC2, gAD2, gK2;

static void model_seal(const variant_t *v, uint8_t *c, const uint8_t *m, size_t mlen, const uint8_t *ad, size_t adlen,
                       const uint8_t *n, const uint8_t *k)
{
    if (v->siv) m_siv_encrypt(v->ks, c, m, mlen, ad, adlen, n, k);
    else m_aead_encrypt(v->ks, c, m, mlen, ad, adlen, n, k);
}
/* expected plaintext + the one tag that makes (body, rtag) acceptable */
static void model_open(const variant_t *v, uint8_t *m, uint8_t tag[8], const uint8_t *body, size_t blen,
                       const uint8_t rtag[8], const uint8_t *ad, size_t adlen, const uint8_t *n, const uint8_t *k)
{
    if (v->siv) m_siv_open(v->ks, m, tag, body, blen, rtag, ad, adlen, n, k);
    else m_aead_open(v->ks, m, tag, body, blen, ad, adlen, n, k);
}

/* ------------------------------------------------------------------ guarded library calls */

static const char *fault_where(const void *a, int *side)
{
    gbuf_t *all[9] = {&gC, &gM, &gAD, &gK, &gN, &gM2, &gC2, &gAD2, &gK2};
    int i;
    for (i = 0; i < 9; ++i) {
        int c = gb_classify(all[i], a);
        if (c) { *side = c; return all[i]->role; }
    }
    *side = 0;
    return "unmapped";
}

static int lib_enc(const variant_t *v, uint8_t *c, size_t *clen, const uint8_t *m, size_t mlen, const uint8_t *ad,
                   size_t adlen, const uint8_t *n, const uint8_t *k)
{
    ++n_enc;
    if (GUARD_TRY()) {
        v->enc(c, clen, m, mlen, ad, adlen, n, k);
        GUARD_END();
        return 0;
    } else {
        int side; const char *w = fault_where(g_fault_addr, &side);
        char key[96];
        snprintf(key, sizeof key, "guard-fault:%s-encrypt:%s:%s", v->name, w,
                 side == 1 ? "before" : side == 2 ? "after" : side == 3 ? "write-to-readonly" : "wild");
        emit_viol(key, "fault at %p in buffer role %s", g_fault_addr, w);
        return -99;
    }
}
static int lib_dec(const variant_t *v, uint8_t *m, size_t *mlen, const uint8_t *c, size_t clen, const uint8_t *ad,
                   size_t adlen, const uint8_t *n, const uint8_t *k)
{
    ++n_dec;
    if (GUARD_TRY()) {
        int rc = v->dec(m, mlen, c, clen, ad, adlen, n, k);
        GUARD_END();
        return rc;
    } else {
        int side; const char *w = fault_where(g_fault_addr, &side);
        char key[96];
        snprintf(key, sizeof key, "guard-fault:%s-decrypt:%s:%s", v->name, w,
                 side == 1 ? "before" : side == 2 ? "after" : side == 3 ? "write-to-readonly" : "wild");
        emit_viol(key, "fault at %p in buffer role %s", g_fault_addr, w);
        return -99;
    }
}

static void viol_bytes(const char *key, const char *what, const uint8_t *exp, const uint8_t *got, size_t n)
{
    char a[140], b[140];
    size_t i, first = 0;
    for (i = 0; i < n; ++i) if (exp[i] != got[i]) { first = i; break; }
    hexs(a, exp + first, n - first, 32);
    hexs(b, got + first, n - first, 32);
    emit_viol(key, "%s: first difference at byte %zu of %zu; expected %s got %s", what, first, n, a, b);
}

static int all_zero(const uint8_t *p, size_t n)
{
    size_t i;
    for (i = 0; i < n; ++i) if (p[i]) return 0;
    return 1;
}

/* ------------------------------------------------------------------ one verdict */

/* Decrypt (body || rtag) with the library into a junk-filled buffer and judge it against the
 * exact expectation: accept iff rtag == exp_tag; accepted -> plaintext == exp_m; rejected ->
 * rc == -1 and region all zero.  inplace: the packet is first copied into the output buffer. */
typedef struct { const variant_t *v; const uint8_t *ad; size_t adlen; const uint8_t *n, *k; } kctx_t;

static uint8_t *scratch_pkt = NULL, *scratch_m = NULL;
static size_t scratch_cap = 0;
static void scratch_need(size_t n)
{
    if (n + 64 > scratch_cap) {
        scratch_cap = 2 * n + 4096;
        scratch_pkt = (uint8_t *)realloc(scratch_pkt, scratch_cap);
        scratch_m = (uint8_t *)realloc(scratch_m, scratch_cap);
        if (!scratch_pkt || !scratch_m) { fprintf(stderr, "oom\n"); exit(2); }
    }
}

static void judge(const kctx_t *kc, const uint8_t *pkt, size_t plen, const uint8_t *exp_m, const uint8_t exp_tag[8],
                  int inplace, uint8_t junk, const char *what)
{
    size_t blen = plen - 8, mlen = (size_t)-1, i;
    int expect_ok = memcmp(pkt + blen, exp_tag, 8) == 0;
    uint8_t *out, *cbuf;
    int rc;
    char key[128];
    /* output buffer: exactly blen bytes against a guard page; packet separately or in place */
    if (inplace) {
        /* in-place needs room for the packet; the packet rotates over end-guard / start-guard / mid (which includes
         * positions laid across a page boundary at every byte offset) */
        out = gb_place(&gM2, plen, plen >= 2 ? (int)((junk >> 1) % 3) : PL_END, (unsigned)(junk >> 3), 0, junk);
        ASAN_UNPOISON(out, plen);
        memcpy(out, pkt, plen);
        cbuf = out;
    } else {
        /* short outputs rotate over end-guard / start-guard / every alignment offset: a wipe that works in words
         * must also cope with a buffer that ends before the next word boundary */
        int pl = blen <= 24 ? (int)(junk % 3) : PL_END;
        out = gb_place(&gM2, blen, pl, (unsigned)(junk >> 2), 0, junk);
        ASAN_UNPOISON(out, blen);
        cbuf = gb_place(&gC2, plen, plen >= 2 ? (int)((junk >> 1) % 3) : PL_END, (unsigned)(junk >> 3), 0, 0);
        ASAN_UNPOISON(cbuf, plen);
        memcpy(cbuf, pkt, plen);
        gb_readonly(&gC2);
        for (i = 0; i < blen; ++i) out[i] = (uint8_t)(junk + i * 7 + 1) | 1;   /* recorded non-zero junk */
        /* a tag-only packet has no plaintext: the output pointer may be NULL, and the verdict may not depend on that */
        if (!blen && (junk & 1)) { out = NULL; ++n_null_out; }
    }
    rc = lib_dec(kc->v, out, &mlen, cbuf, plen, kc->ad, kc->adlen, kc->n, kc->k);
    if (rc == -99) return;
    if (expect_ok) {
        ++n_verdict_acc;
        if (rc != 0) {
            snprintf(key, sizeof key, "reject-valid:%s:%s", kc->v->name, what);
            emit_viol(key, "decrypt returned %d for a packet whose tag equals the specified tag (blen=%zu)", rc, blen);
            return;
        }
        if (mlen != blen) {
            snprintf(key, sizeof key, "mlen-wrong:%s:%s", kc->v->name, what);
            emit_viol(key, "*mlen=%zu expected %zu", mlen, blen);
        }
        if (blen && memcmp(out, exp_m, blen)) {
            snprintf(key, sizeof key, "plaintext-wrong:%s:%s", kc->v->name, what);
            viol_bytes(key, "accepted packet, plaintext differs from specification", exp_m, out, blen);
        }
        n_bytes_cmp += blen;
    } else {
        ++n_verdict_rej;
        if (rc == 0) {
            snprintf(key, sizeof key, "accept-forged:%s:%s", kc->v->name, what);
            emit_viol(key, "decrypt ACCEPTED a packet whose tag differs from the specified tag (blen=%zu adlen=%zu)", blen, kc->adlen);
            return;
        }
        if (rc != -1) {
            snprintf(key, sizeof key, "reject-code:%s:%s", kc->v->name, what);
            emit_viol(key, "rejection returned %d, documented value is -1", rc);
        }
        ++n_zero_regions;
        n_zero_bytes += blen;
        if (!all_zero(out, blen)) {
            size_t nz = 0, firstnz = 0;
            for (i = 0; i < blen; ++i) if (out[i]) { if (!nz) firstnz = i; ++nz; }
            snprintf(key, sizeof key, "plaintext-not-zeroed:%s:%s", kc->v->name, inplace ? "inplace" : "separate");
            emit_viol(key, "rejected packet (%s) left %zu non-zero bytes in the %zu-byte plaintext region, first at %zu (value %02x, candidate plaintext byte %02x)",
                      what, nz, blen, firstnz, out[firstnz], exp_m ? exp_m[firstnz] : 0);
        }
    }
    if (!inplace) gb_writable(&gC2);
}

/* ------------------------------------------------------------------ batteries */

static void battery_tamper(const kctx_t *kc, const uint8_t *pkt, size_t plen, const uint8_t *m, rng_t *r, int full,
                           int inplace_bias)
{
    size_t blen = plen - 8, i;
    const variant_t *v = kc->v;
    uint8_t etag[8];
    uint8_t *p, *em;
    int b, d, light = blen > 2048;
    scratch_need(plen + 256);
    p = scratch_pkt; em = scratch_m;

#define JUDGE_CUR(what) do { \
        if (v->siv) model_open(v, em, etag, p, blen, p + blen, kc->ad, kc->adlen, kc->n, kc->k); \
        judge(kc, p, plen, em, etag, (int)(rnd(r, 4) == 0) ^ inplace_bias, (uint8_t)rnd64(r), what); } while (0)

    /* (a) the valid packet */
    memcpy(p, pkt, plen);
    model_open(v, em, etag, p, blen, p + blen, kc->ad, kc->adlen, kc->n, kc->k);
    judge(kc, p, plen, em, etag, 0, 0x11, "valid");
    judge(kc, p, plen, em, etag, 1, 0x22, "valid-inplace");
    (void)m;

    /* (b) forged-valid: random body, tag computed by the model -> must be accepted */
    {
        int t;
        for (t = 0; t < (full ? 3 : 1); ++t) {
            uint8_t tag2[8];
            fill_class(r, p, blen, t == 0 ? BC_RANDOM : t == 1 ? BC_HIGH : BC_FF);
            if (v->siv) {
                /* choose a plaintext, let the model make the packet (a foreign encryptor) */
                memcpy(em, p, blen);
                model_seal(v, p, em, blen, kc->ad, kc->adlen, kc->n, kc->k);
                memcpy(tag2, p + blen, 8);
            } else {
                model_open(v, em, tag2, p, blen, NULL, kc->ad, kc->adlen, kc->n, kc->k);
                memcpy(p + blen, tag2, 8);
            }
            judge(kc, p, plen, em, tag2, t & 1, (uint8_t)(0x33 + t), "forged-valid");
            ++n_forged_ok;
        }
    }

    /* (c) all 64 single-bit tag flips */
    if (v->siv && blen) {
        for (b = 0; b < 64; ++b) {          /* every single tag bit (each needs its own model run: the keystream follows the tag) */
            if (light && (b % 16) != 15) continue;
            memcpy(p, pkt, plen);
            p[blen + (b >> 3)] ^= (uint8_t)(1u << (b & 7));
            JUDGE_CUR("tag-bitflip");
        }
    }
    if (!v->siv || !blen) {
        memcpy(p, pkt, plen);
        model_open(v, em, etag, p, blen, p + blen, kc->ad, kc->adlen, kc->n, kc->k);
        for (b = 0; b < 64; ++b) {
            if (light && (b % 9)) continue;
            memcpy(p + blen, pkt + blen, 8);
            p[blen + (b >> 3)] ^= (uint8_t)(1u << (b & 7));
            judge(kc, p, plen, em, etag, (b & 7) == 3, (uint8_t)b, "tag-bitflip");
        }
        /* (d) every non-zero XOR delta in every single tag byte: 2040 wrong tags */
        for (b = 0; b < 8; ++b)
            for (d = 1; d < 256; ++d) {
                if (!full && (d % 3) && d != 0x80 && d != 0xFF && d != 1) continue;
                if (light && d != 0x80 && d != 1 && d != 0xFF) continue;
                memcpy(p + blen, pkt + blen, 8);
                p[blen + b] ^= (uint8_t)d;
                judge(kc, p, plen, em, etag, 0, (uint8_t)d, "tag-byte-delta");
            }
        /* (e) cancellation patterns: XOR-fold zero, additive zero, reversed, rotated, all-but-one right */
        for (i = 0; i < (full ? 64u : light ? 6u : 16u); ++i) {
            int a = (int)rnd(r, 8), c2 = (int)((a + 1 + rnd(r, 7)) % 8);
            uint8_t dd = (uint8_t)(1 + rnd(r, 255));
            memcpy(p + blen, pkt + blen, 8);
            switch (i % 6) {
            case 0: p[blen + a] ^= dd; p[blen + c2] ^= dd; break;                       /* XOR of all bytes unchanged */
            case 1: p[blen + a] = (uint8_t)(p[blen + a] + dd); p[blen + c2] = (uint8_t)(p[blen + c2] - dd); break; /* sum unchanged */
            case 2: { int q; for (q = 0; q < 8; ++q) p[blen + q] = pkt[blen + 7 - q]; } break;
            case 3: { int q; for (q = 0; q < 8; ++q) p[blen + q] = pkt[blen + ((q + 1 + a) & 7)]; } break;
            case 4: { int q; for (q = 0; q < 8; ++q) p[blen + q] = (uint8_t)rnd64(r); } break;
            default: { int q; for (q = 0; q < 8; ++q) p[blen + q] = (uint8_t)~pkt[blen + q]; p[blen + a] = pkt[blen + a]; } break;
            }
            judge(kc, p, plen, em, etag, 0, dd, "tag-pattern");
        }
        /* (e2) the same bit flipped in two tag bytes, for the top and the bottom bit and every byte pair (word-wise
         *      comparisons that lose a sign bit, or combine words with XOR, accept exactly such tags) */
        if (!light) {
            int bi, bj;
            for (bi = 0; bi < 8; ++bi)
                for (bj = bi + 1; bj < 8; ++bj)
                    for (d = 0; d < 2; ++d) {
                        memcpy(p + blen, pkt + blen, 8);
                        p[blen + bi] ^= d ? 0x80 : 0x01; p[blen + bj] ^= d ? 0x80 : 0x01;
                        judge(kc, p, plen, em, etag, 0, (uint8_t)(bi * 8 + bj), "tag-bit-pair");
                    }
        }
    } else {
        /* SIV: a changed tag changes keystream and expected tag; every verdict from the model */
        for (b = 0; b < 8; ++b) {
            int cnt = full ? 12 : light ? 1 : 2;
            while (cnt--) {
                memcpy(p, pkt, plen);
                p[blen + b] ^= (uint8_t)(1 + rnd(r, 255));
                JUDGE_CUR("tag-byte-delta");
            }
        }
        for (i = 0; i < (full ? 12u : 4u); ++i) {
            int a = (int)rnd(r, 8), c2 = (int)((a + 1 + rnd(r, 7)) % 8), q;
            uint8_t dd = (uint8_t)(1 + rnd(r, 255));
            memcpy(p, pkt, plen);
            switch (i % 4) {
            case 0: p[blen + a] ^= dd; p[blen + c2] ^= dd; break;
            case 1: p[blen + a] = (uint8_t)(p[blen + a] + dd); p[blen + c2] = (uint8_t)(p[blen + c2] - dd); break;
            case 2: for (q = 0; q < 8; ++q) p[blen + q] = pkt[blen + 7 - q]; break;
            default: for (q = 0; q < 8; ++q) p[blen + q] = (uint8_t)rnd64(r); break;
            }
            JUDGE_CUR("tag-pattern");
        }
    }

    /* (f) single-bit flips in the body: every position for short packets, sampled for long */
    {
        size_t nb = blen * 8, step = (nb <= 256 || full) ? 1 : nb / 128 + 1;
        if (light) step = nb / 10 + 1;
        for (i = 0; i < nb; i += step) {
            memcpy(p, pkt, plen);
            p[i >> 3] ^= (uint8_t)(1u << (i & 7));
            model_open(v, em, etag, p, blen, p + blen, kc->ad, kc->adlen, kc->n, kc->k);
            judge(kc, p, plen, em, etag, (i & 3) == 1, (uint8_t)i, "body-bitflip");
        }
    }
    /* AD / nonce / key bit flips: the packet is unchanged, the context differs */
    {
        uint8_t ad2[320], n2[12], k2[32];
        kctx_t k2c = *kc;
        size_t nb, step;
        memcpy(p, pkt, plen);
        if (kc->adlen && kc->adlen <= sizeof ad2) {
            nb = kc->adlen * 8; step = full ? 1 : light ? nb / 3 + 1 : nb / 24 + 1;
            for (i = 0; i < nb; i += (i + 64 >= nb && step > 5 ? 5 : step)) {       /* the last 8 bytes densely: unrolled absorb loops lose tails */
                memcpy(ad2, kc->ad, kc->adlen);
                ad2[i >> 3] ^= (uint8_t)(1u << (i & 7));
                k2c = *kc; k2c.ad = ad2;
                model_open(v, em, etag, p, blen, p + blen, ad2, kc->adlen, kc->n, kc->k);
                judge(&k2c, p, plen, em, etag, 0, (uint8_t)i, "ad-bitflip");
            }
        }
        step = full ? 1 : light ? 31 : 5;
        for (i = 0; i < 96; i += step) {
            memcpy(n2, kc->n, 12);
            n2[i >> 3] ^= (uint8_t)(1u << (i & 7));
            k2c = *kc; k2c.n = n2;
            model_open(v, em, etag, p, blen, p + blen, kc->ad, kc->adlen, n2, kc->k);
            judge(&k2c, p, plen, em, etag, 0, (uint8_t)i, i < 32 ? "nonce-lo-bitflip" : "nonce-hi-bitflip");
        }
        step = full ? 1 : light ? 50 : 9;
        for (i = 0; i < (size_t)v->ks * 8; i += step) {
            memcpy(k2, kc->k, (size_t)v->ks);
            k2[i >> 3] ^= (uint8_t)(1u << (i & 7));
            k2c = *kc; k2c.k = k2;
            model_open(v, em, etag, p, blen, p + blen, kc->ad, kc->adlen, kc->n, k2);
            judge(&k2c, p, plen, em, etag, 0, (uint8_t)i, "key-bitflip");
        }
    }
    /* (g) truncation / extension / AD-message boundary shifts / swap */
    {
        uint8_t ad2[200];
        kctx_t k2c;
        int s;
        /* drop first / last body byte, add a byte at either end */
        if (blen >= 1) {
            memcpy(p, pkt + 1, plen - 1);
            model_open(v, em, etag, p, blen - 1, p + blen - 1, kc->ad, kc->adlen, kc->n, kc->k);
            judge(kc, p, plen - 1, em, etag, 0, 1, "truncate-front");
            memcpy(p, pkt, blen - 1); memcpy(p + blen - 1, pkt + blen, 8);
            model_open(v, em, etag, p, blen - 1, p + blen - 1, kc->ad, kc->adlen, kc->n, kc->k);
            judge(kc, p, plen - 1, em, etag, 0, 2, "truncate-back");
            /* packet cut by one byte: the tag window slides over the body */
            memcpy(p, pkt, plen - 1);
            model_open(v, em, etag, p, blen - 1, p + blen - 1, kc->ad, kc->adlen, kc->n, kc->k);
            judge(kc, p, plen - 1, em, etag, 0, 3, "cut-last-byte");
        }
        p[0] = (uint8_t)rnd64(r); memcpy(p + 1, pkt, plen);
        model_open(v, em, etag, p, blen + 1, p + blen + 1, kc->ad, kc->adlen, kc->n, kc->k);
        judge(kc, p, plen + 1, em, etag, 0, 4, "extend-front");
        memcpy(p, pkt, blen); p[blen] = (uint8_t)rnd64(r); memcpy(p + blen + 1, pkt + blen, 8);
        model_open(v, em, etag, p, blen + 1, p + blen + 1, kc->ad, kc->adlen, kc->n, kc->k);
        judge(kc, p, plen + 1, em, etag, 0, 5, "extend-back");
        memcpy(p, pkt, plen); p[plen] = 0;
        model_open(v, em, etag, p, blen + 1, p + blen + 1, kc->ad, kc->adlen, kc->n, kc->k);
        judge(kc, p, plen + 1, em, etag, 0, 6, "append-zero");
        /* move the AD / message boundary by s bytes: last s AD bytes become a body prefix and back */
        for (s = 1; s <= 4; ++s) {
            if (kc->adlen >= (size_t)s && kc->adlen <= sizeof ad2) {
                memcpy(p, kc->ad + kc->adlen - s, (size_t)s); memcpy(p + s, pkt, plen);
                k2c = *kc; k2c.adlen = kc->adlen - (size_t)s;
                model_open(v, em, etag, p, blen + s, p + blen + s, kc->ad, k2c.adlen, kc->n, kc->k);
                judge(&k2c, p, plen + s, em, etag, 0, (uint8_t)s, "boundary-ad-to-body");
            }
            if (blen >= (size_t)s && kc->adlen + (size_t)s <= sizeof ad2) {
                if (kc->adlen) memcpy(ad2, kc->ad, kc->adlen);
                memcpy(ad2 + kc->adlen, pkt, (size_t)s);
                memcpy(p, pkt + s, plen - (size_t)s);
                k2c = *kc; k2c.ad = ad2; k2c.adlen = kc->adlen + (size_t)s;
                model_open(v, em, etag, p, blen - s, p + blen - s, ad2, k2c.adlen, kc->n, kc->k);
                judge(&k2c, p, plen - s, em, etag, 0, (uint8_t)s, "boundary-body-to-ad");
            }
        }
        /* swap AD and body */
        if (kc->adlen && blen && blen <= sizeof ad2 && kc->adlen <= 160) {       /* p holds plen + 16 bytes: only short ADs can become a body */
            memcpy(ad2, pkt, blen);
            memcpy(p, kc->ad, kc->adlen); memcpy(p + kc->adlen, pkt + blen, 8);
            k2c = *kc; k2c.ad = ad2; k2c.adlen = blen;
            model_open(v, em, etag, p, kc->adlen, p + kc->adlen, ad2, blen, kc->n, kc->k);
            judge(&k2c, p, kc->adlen + 8, em, etag, 0, 9, "swap-ad-body");
        }
    }
#undef JUDGE_CUR
}

/* (h) clen 0..7: negative result, nothing written, c may be NULL */
static void battery_short(const kctx_t *kc, rng_t *r)
{
    size_t cl;
    for (cl = 0; cl < 8; ++cl) {
        uint8_t *out = gb_place(&gM2, 16, PL_MID, (unsigned)cl, 0, 0xC3);
        uint8_t *c = NULL;
        size_t ml = 0x5A5A5A5A, i;
        int rc;
        char key[96];
        if (cl && rnd(r, 2)) { c = gb_place(&gC2, cl, PL_END, 0, 0, 0x77); gb_readonly(&gC2); }
        else if (cl) { c = gb_place(&gC2, cl, PL_START, 0, 0, 0x78); gb_readonly(&gC2); }
        else c = rnd(r, 2) ? NULL : gb_place(&gC2, 0, PL_END, 0, 0, 0);
        ASAN_UNPOISON(out, 16);
        rc = lib_dec(kc->v, out, &ml, c, cl, kc->ad, kc->adlen, kc->n, kc->k);
        gb_writable(&gC2);
        ++n_short;
        if (rc == -99) continue;
        if (rc >= 0) {
            snprintf(key, sizeof key, "short-accepted:%s", kc->v->name);
            emit_viol(key, "clen=%zu returned %d (must be negative)", cl, rc);
        }
        for (i = 0; i < 16; ++i)
            if (out[i] != 0xC3) {
                snprintf(key, sizeof key, "short-wrote-plaintext:%s", kc->v->name);
                emit_viol(key, "clen=%zu wrote to the plaintext buffer at %zu", cl, i);
                break;
            }
        if (gb_canary_bad(&gM2)) {
            snprintf(key, sizeof key, "short-wrote-outside:%s", kc->v->name);
            emit_viol(key, "clen=%zu wrote outside the plaintext buffer", cl);
        }
    }
}

/* SIV nonce-reuse pairs, with plain AEAD as positive control (C09) */
static void battery_pairs(const kctx_t *kc, const uint8_t *m, size_t mlen, rng_t *r)
{
    const variant_t *v = kc->v;
    uint8_t *m2, *c1, *c2, *ad2;
    size_t cl1 = 0, cl2 = 0, i, adl = kc->adlen;
    int kind = (int)rnd(r, 4), diff_xor, related;
    char key[96];
    if (mlen < 8) return;
    scratch_need(2 * mlen + adl + 64);
    m2 = scratch_m; c1 = scratch_pkt; c2 = scratch_pkt + mlen + 16;
    ad2 = scratch_m + mlen + 16;
    memcpy(m2, m, mlen);
    if (adl) memcpy(ad2, kc->ad, adl);
    switch (adl ? kind : kind % 3) {
    case 0: m2[rnd(r, (uint32_t)mlen)] ^= (uint8_t)(1u << rnd(r, 8)); break;                 /* one bit of the message */
    case 1: m2[rnd(r, (uint32_t)mlen)] ^= (uint8_t)(1 + rnd(r, 255)); break;                  /* one byte */
    case 2: { size_t s = rnd(r, (uint32_t)mlen); for (i = s; i < mlen; ++i) m2[i] ^= (uint8_t)(1 + rnd(r, 255)); } break; /* suffix */
    default: ad2[rnd(r, (uint32_t)adl)] ^= (uint8_t)(1u << rnd(r, 8)); break;                 /* one bit of the AD, same message */
    }
    if (lib_enc(v, c1, &cl1, m, mlen, kc->ad, adl, kc->n, kc->k)) return;
    if (lib_enc(v, c2, &cl2, m2, mlen, adl ? ad2 : kc->ad, adl, kc->n, kc->k)) return;
    /* relatedness: body1 ^ body2 == m1 ^ m2 over the whole body */
    related = 1;
    for (i = 0; i < mlen; ++i) if ((c1[i] ^ c2[i]) != (m[i] ^ m2[i])) { related = 0; break; }
    diff_xor = memcmp(c1 + mlen, c2 + mlen, 8) != 0;
    if (v->siv) {
        ++n_pairs;
        if (!diff_xor) {
            snprintf(key, sizeof key, "siv-same-iv:%s", v->name);
            emit_viol(key, "two different (AD, message) pairs under one (key, nonce) received the same synthetic IV (mlen=%zu kind=%d)", mlen, kind);
        }
        if (related) {
            snprintf(key, sizeof key, "siv-related-bodies:%s", v->name);
            emit_viol(key, "body1^body2 == m1^m2 over all %zu bytes under a reused (key, nonce): keystream does not depend on the tag (kind=%d)", mlen, kind);
        }
    } else {
        /* positive control: plain AEAD under nonce reuse IS related on the common prefix (message-only changes) */
        size_t common = 0;
        if ((adl ? kind : kind % 3) == 3) return;          /* AD changed: keystreams legitimately differ */
        while (common < mlen && m[common] == m2[common]) ++common;
        common &= ~(size_t)3;
        /* keystream word j depends on plaintext words < j, so bytes up to and including the first differing word are related */
        common += 4; if (common > mlen) common = mlen;
        for (i = 0; i < common; ++i)
            if ((c1[i] ^ c2[i]) != (m[i] ^ m2[i])) {
                emit_viol("pairs-control-blind:aead", "positive control failed: AEAD bodies under nonce reuse are not related at byte %zu", i);
                return;
            }
        ++n_ctl_pairs;
    }
}


/* ------------------------------------------------------------------ lengths >= 2^32 (thorough only) */

static uint8_t *huge_map(size_t n)
{
    uint8_t *p = (uint8_t *)mmap(NULL, n, PROT_READ | PROT_WRITE, MAP_PRIVATE | MAP_ANONYMOUS | MAP_NORESERVE, -1, 0);
    if (p == MAP_FAILED) { perror("mmap huge"); exit(2); }
    return p;
}
static void huge_fill(uint8_t *p, size_t n, uint64_t seed)
{
    size_t i;
    uint64_t s = seed;
    for (i = 0; i + 8 <= n; i += 8) { uint64_t v = s += 0x9E3779B97F4A7C15ULL; v ^= v >> 29; memcpy(p + i, &v, 8); }
    for (; i < n; ++i) p[i] = (uint8_t)(i * 131 + seed);
}

/* bytes [off, off + n) of what huge_fill(p, total, seed) writes (off a multiple of 8) */
static void huge_chunk(uint8_t *dst, size_t off, size_t n, size_t total, uint64_t seed)
{
    size_t i;
    for (i = 0; i < n; ) {
        size_t pos = off + i;
        if (pos + 8 <= total - total % 8 && i + 8 <= n) { uint64_t v = seed + (uint64_t)(pos / 8 + 1) * 0x9E3779B97F4A7C15ULL; v ^= v >> 29; memcpy(dst + i, &v, 8); i += 8; }
        else if (pos + 8 <= total - total % 8) { uint64_t v = seed + (uint64_t)(pos / 8 + 1) * 0x9E3779B97F4A7C15ULL; uint8_t t[8]; v ^= v >> 29; memcpy(t, &v, 8); memcpy(dst + i, t, n - i); i = n; }
        else { dst[i] = (uint8_t)(pos * 131 + seed); ++i; }
    }
}

/* exact oracle for a multi-GiB packet: the streaming model (32-steps-per-iteration permutation, pinned to the literal
 * one at start) regenerates the plaintext chunk by chunk and compares its ciphertext with what the library wrote */
static void huge_exact(const args_t *a, const variant_t *v, const uint8_t *pkt, size_t mlen, uint64_t fillseed,
                       const uint8_t *ad, size_t adlen, const uint8_t *n, const uint8_t *k)
{
    enum { CH = 1 << 20 };
    uint8_t *pm = (uint8_t *)malloc(CH), *cm = (uint8_t *)malloc(CH), tag[8], n2[12];
    int vi = (int)(v - VARS), ks = vi % 3 == 0 ? 16 : vi % 3 == 1 ? 24 : 32;
    m_stream_t st;
    size_t off, bad = (size_t)-1;
    char key[96];
    (void)a;
    if (m_use_fast_perm(1)) { fprintf(stderr, "fast permutation disagrees with the literal model\n"); exit(2); }
    if (vi < 3) {
        m_stream_begin(&st, ks, k, n, 0x10, ad, adlen);
        for (off = 0; off < mlen; off += CH) {
            size_t l = mlen - off < CH ? mlen - off : CH;
            huge_chunk(pm, off, l, mlen, fillseed);
            m_stream_aead_encrypt(&st, cm, pm, l);
            if (bad == (size_t)-1 && memcmp(cm, pkt + off, l)) { size_t j; for (j = 0; j < l && cm[j] == pkt[off + j]; ++j) { } bad = off + j; }
        }
        m_stream_tag(&st, tag);
    } else {
        m_stream_begin(&st, ks, k, n, 0x90, ad, adlen);
        for (off = 0; off < mlen; off += CH) { size_t l = mlen - off < CH ? mlen - off : CH; huge_chunk(pm, off, l, mlen, fillseed); m_stream_absorb_msg(&st, pm, l); }
        m_stream_tag(&st, tag);
        memcpy(n2, n, 4); memcpy(n2 + 4, tag, 8);
        m_stream_begin(&st, ks, k, n2, 0xB0, NULL, 1);
        for (off = 0; off < mlen; off += CH) {
            size_t l = mlen - off < CH ? mlen - off : CH;
            huge_chunk(pm, off, l, mlen, fillseed);
            m_stream_keystream_xor(&st, cm, pm, l);
            if (bad == (size_t)-1 && memcmp(cm, pkt + off, l)) { size_t j; for (j = 0; j < l && cm[j] == pkt[off + j]; ++j) { } bad = off + j; }
        }
    }
    m_use_fast_perm(0);
    n_bytes_cmp += mlen + 8;
    if (bad != (size_t)-1) { snprintf(key, sizeof key, "spec-mismatch:%s:huge-body", v->name); emit_viol(key, "ciphertext byte %zu of a %zu byte message differs from the streaming model", bad, mlen); }
    if (memcmp(tag, pkt + mlen, 8)) { snprintf(key, sizeof key, "spec-mismatch:%s:huge-tag", v->name); emit_viol(key, "tag of a %zu byte message differs from the streaming model", mlen); }
    free(pm); free(cm);
}

/* AD of 2^32 + 7 bytes: no model can be afforded, but a length that is truncated modulo 2^32 (or any narrower
 * counter) makes the packet equal to the one for the truncated length, and makes bytes beyond the truncated length
 * irrelevant.  Both are checked; neither can happen for a conforming implementation except with probability 2^-64. */
static void huge_ad_case(const args_t *a, long idx, const variant_t *v)
{
    size_t adlen = ((size_t)1 << 32) + 7, mlen = 5, clen = 0;
    uint8_t *ad = huge_map(adlen + 16), k[32], n[12], m[8], c0[16], c1[16], c2[16], c3[16];
    rng_t r = rng_for(a->seed, 0x4061, (uint64_t)idx);
    char key[96];
    static const size_t TRUNC[] = {7, 65536 + 7, ((size_t)1 << 31) + 7};
    int t;
    set_case("{\"h\":\"aead\",\"mode\":\"huge-ad\",\"v\":\"%s\",\"i\":%ld,\"adlen\":%zu,\"mlen\":%zu}", v->name, idx, adlen, mlen);
    ++n_cases; ++n_long;
    cls_add(mix64(0x4061, (uint64_t)(v - VARS)));
    emit_sample();
    fill_random(&r, k, 32); fill_random(&r, n, 12); fill_random(&r, m, 8);
    huge_fill(ad, adlen, a->seed + (uint64_t)idx);
    v->enc(c0, &clen, m, mlen, ad, adlen, n, k); ++n_enc;
    if (clen != mlen + 8) { snprintf(key, sizeof key, "clen-wrong:%s", v->name); emit_viol(key, "*clen=%zu with adlen=2^32+7", clen); }
    for (t = 0; t < 3; ++t) {
        /* same prefix, shorter declared length */
        v->enc(c1, &clen, m, mlen, ad, TRUNC[t], n, k); ++n_enc;
        if (!memcmp(c0, c1, mlen + 8)) {
            snprintf(key, sizeof key, "length-truncated:%s:adlen", v->name);
            emit_viol(key, "packet for adlen=2^32+7 equals the packet for adlen=%zu with the same leading bytes: the AD length is truncated", TRUNC[t]);
        }
    }
    ad[adlen - 3] ^= 0x40;                       /* a byte in the final partial word, beyond 2^32 */
    v->enc(c2, &clen, m, mlen, ad, adlen, n, k); ++n_enc;
    ad[adlen - 3] ^= 0x40;
    ad[((size_t)1 << 32) - 100] ^= 0x01;         /* a byte just below 2^32 */
    v->enc(c3, &clen, m, mlen, ad, adlen, n, k); ++n_enc;
    if (!memcmp(c0, c2, mlen + 8) || !memcmp(c0, c3, mlen + 8)) {
        snprintf(key, sizeof key, "ad-bytes-ignored:%s", v->name);
        emit_viol(key, "changing AD byte %s of a 2^32+7 byte AD does not change the packet", !memcmp(c0, c2, mlen + 8) ? "2^32+4" : "2^32-100");
    }
    /* and the library's own decrypt accepts its packet with the full AD */
    ad[((size_t)1 << 32) - 100] ^= 0x01;
    { uint8_t mo[8]; size_t ml = 0; int rc = v->dec(mo, &ml, c0, mlen + 8, ad, adlen, n, k); ++n_dec;
      if (rc != 0 || ml != mlen || memcmp(mo, m, mlen)) { snprintf(key, sizeof key, "roundtrip-rejected:%s:huge-ad", v->name); emit_viol(key, "decrypt with the 2^32+7 byte AD returned %d", rc); } }
    munmap(ad, adlen + 16);
}

/* C03/C08: extending or truncating the AD by exactly 2^32 bytes must be rejected like any other AD modification */
static void huge_tamper_case(const args_t *a, long idx, const variant_t *v)
{
    size_t big = ((size_t)1 << 32) + 5, mlen = 6, clen = 0, ml = 0;
    uint8_t *ad = huge_map(big + 16), k[32], n[12], m[8], c[16], mo[8];
    rng_t r = rng_for(a->seed, 0x4063, (uint64_t)idx);
    char key[96];
    int rc, i;
    set_case("{\"h\":\"aead\",\"mode\":\"huge-ad-tamper\",\"v\":\"%s\",\"i\":%ld,\"sealed_adlen\":5,\"opened_adlen\":%zu}", v->name, idx, big);
    ++n_cases; ++n_long;
    cls_add(mix64(0x4063, (uint64_t)(v - VARS)));
    emit_sample();
    fill_random(&r, k, 32); fill_random(&r, n, 12); fill_random(&r, m, 8);
    ad[0] = 1; ad[1] = 2; ad[2] = 3; ad[3] = 4; ad[4] = 5;          /* the rest of the region stays zero pages */
    v->enc(c, &clen, m, mlen, ad, 5, n, k); ++n_enc;
    memset(mo, 0xEE, sizeof mo);
    rc = v->dec(mo, &ml, c, mlen + 8, ad, big, n, k); ++n_dec; ++n_verdict_rej;
    if (rc == 0) { snprintf(key, sizeof key, "accept-forged:%s:ad-extended-by-2^32", v->name); emit_viol(key, "a packet sealed with 5 bytes of AD was accepted with 2^32+5 bytes of AD (same first 5 bytes)"); }
    else { for (i = 0; i < (int)mlen; ++i) if (mo[i]) { snprintf(key, sizeof key, "plaintext-not-zeroed:%s:huge", v->name); emit_viol(key, "rejected packet left plaintext"); break; } }
    v->enc(c, &clen, m, mlen, ad, big, n, k); ++n_enc;
    rc = v->dec(mo, &ml, c, mlen + 8, ad, 5, n, k); ++n_dec; ++n_verdict_rej;
    if (rc == 0) { snprintf(key, sizeof key, "accept-forged:%s:ad-truncated-by-2^32", v->name); emit_viol(key, "a packet sealed with 2^32+5 bytes of AD was accepted with only its first 5 bytes"); }
    munmap(ad, big + 16);
}

/* message of 2^32 + 5 (and 2^31 + 3: sign bit of a 32-bit length) bytes, encrypted and decrypted in place: exact round-trip oracle */
static void huge_msg_case(const args_t *a, long idx, const variant_t *v, size_t mlen)
{
    size_t clen = 0, ml2 = 0, i, bad = 0;
    uint8_t *buf = huge_map(mlen + 64), k[32], n[12], ad[8], probe[64];
    rng_t r = rng_for(a->seed, 0x4062, (uint64_t)idx);
    char key[96];
    int rc;
    set_case("{\"h\":\"aead\",\"mode\":\"huge-message\",\"v\":\"%s\",\"i\":%ld,\"adlen\":3,\"mlen\":%zu,\"alias\":\"in place\"}", v->name, idx, mlen);
    ++n_cases; ++n_long; ++n_inplace;
    cls_add(mix64(0x4062, (uint64_t)(v - VARS) + (mlen >> 31) * 8));
    emit_sample();
    fill_random(&r, k, 32); fill_random(&r, n, 12); fill_random(&r, ad, 8);
    huge_fill(buf, mlen, a->seed * 7 + (uint64_t)idx);
    memcpy(probe, buf + mlen - 40, 40);
    memset(buf + mlen, 0xAB, 64);
    v->enc(buf, &clen, buf, mlen, ad, 3, n, k); ++n_enc;
    if (clen != mlen + 8) { snprintf(key, sizeof key, "clen-wrong:%s", v->name); emit_viol(key, "*clen=%zu for mlen=%zu", clen, mlen); }
    for (i = 8; i < 64; ++i) if (buf[mlen + i] != 0xAB) { snprintf(key, sizeof key, "encrypt-wrote-outside:%s", v->name); emit_viol(key, "byte %zu after the packet was modified", i); break; }
    if (!memcmp(probe, buf + mlen - 40, 40)) { snprintf(key, sizeof key, "length-truncated:%s:mlen", v->name); emit_viol(key, "the last 40 bytes of a %zu byte message were not encrypted", mlen); }
    huge_exact(a, v, buf, mlen, a->seed * 7 + (uint64_t)idx, ad, 3, n, k);
    rc = v->dec(buf, &ml2, buf, mlen + 8, ad, 3, n, k); ++n_dec;
    if (rc != 0 || ml2 != mlen) { snprintf(key, sizeof key, "roundtrip-rejected:%s:huge-message", v->name); emit_viol(key, "decrypt(encrypt(m)) returned %d, *mlen=%zu for mlen=%zu", rc, ml2, mlen); }
    else {
        /* compare with a regenerated copy of the plaintext, chunk by chunk */
        uint8_t *ref = huge_map(1 << 20);
        uint64_t sd = a->seed * 7 + (uint64_t)idx;
        (void)ref;
        { size_t j; uint64_t s = sd; for (j = 0; j + 8 <= mlen; j += 8) { uint64_t v2 = s += 0x9E3779B97F4A7C15ULL, w; v2 ^= v2 >> 29; memcpy(&w, buf + j, 8); if (w != v2) { ++bad; if (bad == 1) i = j; } }
          for (; j < mlen; ++j) if (buf[j] != (uint8_t)(j * 131 + sd)) { ++bad; if (bad == 1) i = j; } }
        munmap(ref, 1 << 20);
        n_bytes_cmp += mlen;
        if (bad) { snprintf(key, sizeof key, "roundtrip-plaintext:%s:huge-message", v->name); emit_viol(key, "%zu words of the recovered %zu byte plaintext differ, first near offset %zu", bad, mlen, i); }
    }
    munmap(buf, mlen + 64);
}

/* forged packet with a body of 2^32 + 16 bytes (one bit flipped beyond offset 2^32), opened in place: must be
 * rejected and every one of the 2^32 + 16 plaintext bytes must be zero afterwards */
static void huge_reject_case(const args_t *a, long idx, const variant_t *v, size_t mlen)
{
    size_t clen = 0, ml2 = 0, i, nz = 0, first = 0;
    uint8_t *buf = huge_map(mlen + 64), k[32], n[12], ad[8];
    rng_t r = rng_for(a->seed, 0x4064, (uint64_t)idx);
    char key[96];
    int rc;
    set_case("{\"h\":\"aead\",\"mode\":\"huge-reject\",\"v\":\"%s\",\"i\":%ld,\"adlen\":2,\"mlen\":%zu,\"alias\":\"in place\",\"flipped\":\"body byte mlen-9\"}", v->name, idx, mlen);
    ++n_cases; ++n_long; ++n_inplace;
    cls_add(mix64(0x4064, (uint64_t)(v - VARS) + (mlen >> 31) * 8));
    emit_sample();
    fill_random(&r, k, 32); fill_random(&r, n, 12); fill_random(&r, ad, 8);
    huge_fill(buf, mlen, a->seed * 11 + (uint64_t)idx);
    v->enc(buf, &clen, buf, mlen, ad, 2, n, k); ++n_enc;
    buf[mlen - 9] ^= 0x04;
    rc = v->dec(buf, &ml2, buf, mlen + 8, ad, 2, n, k); ++n_dec; ++n_verdict_rej;
    if (rc == 0) { snprintf(key, sizeof key, "accept-forged:%s:huge-body", v->name); emit_viol(key, "a %zu byte packet with one body bit flipped near its end was accepted", mlen + 8); }
    else {
        const uint64_t *w = (const uint64_t *)buf;
        for (i = 0; i < mlen / 8; ++i) if (w[i]) { if (!nz) first = i * 8; ++nz; }
        for (i = mlen - mlen % 8; i < mlen; ++i) if (buf[i]) { if (!nz) first = i; ++nz; }
        n_bytes_cmp += mlen;
        if (nz) { snprintf(key, sizeof key, "plaintext-not-zeroed:%s:huge", v->name); emit_viol(key, "rejected %zu byte packet: %zu words of the plaintext buffer are not zero, first at offset %zu", mlen + 8, nz, first); }
    }
    /* second forgery: a GENUINE 16-byte-body packet P||T at the start of the buffer, presented with a length that is
     * larger by (mlen - 16) - a multiple of 2^32 in the thorough tier: a body length narrowed to 32 bits finds the tag
     * where the short packet has it */
    {
        uint8_t small[16], *out = huge_map(mlen + 64);
        size_t sl = 0;
        fill_random(&r, small, 16);
        memset(buf, 0, 64);
        v->enc(buf, &sl, small, 16, ad, 2, n, k); ++n_enc;
        rc = v->dec(out, &ml2, buf, (mlen - 16) + 24, ad, 2, n, k); ++n_dec; ++n_verdict_rej;
        if (rc == 0) { snprintf(key, sizeof key, "accept-forged:%s:body-extended-by-2^32", v->name); emit_viol(key, "a genuine 24-byte packet followed by %zu further bytes was accepted as one packet", mlen - 16); }
        munmap(out, mlen + 64);
    }
    munmap(buf, mlen + 64);
}

/* corpus entries (model/mine.c): inputs for which a keystream word or a tag half is 0 / ffffffff / equal to its
 * neighbour, and forged SIV packets whose recomputed tag is wrong in a structured way */
static struct { int active; uint8_t k[32], n[12], ad[64], m[64]; } OV;

static void special_forge_case(const args_t *a, long idx, const variant_t *v, const uint8_t *k0, const uint8_t *n0, const uint8_t *ad0, size_t adlen,
                               const uint8_t *pkt0, size_t plen, const char *pat)
{
    int vi = (int)(v - VARS), ks = vi % 3 == 0 ? 16 : vi % 3 == 1 ? 24 : 32, rc, inplace;
    uint8_t tag[8], rec[64], *k, *n, *ad, *pk, *mo;
    size_t blen = plen - 8, ml = 0, i;
    char key[96];
    set_case("{\"h\":\"aead\",\"mode\":\"special-forgery\",\"v\":\"%s\",\"i\":%ld,\"adlen\":%zu,\"clen\":%zu,\"pattern\":\"%s\"}", v->name, idx, adlen, plen, pat);
    ++n_cases; ++n_special;
    cls_add(mix64(0x5BEE, (uint64_t)idx));
    if (idx % 7 == 0 || a->only >= 0) emit_sample();
    if (vi >= 3) m_siv_open(ks, rec, tag, pkt0, blen, pkt0 + blen, ad0, adlen, n0, k0); else m_aead_open(ks, rec, tag, pkt0, blen, ad0, adlen, n0, k0);
    if (!memcmp(tag, pkt0 + blen, 8)) return;      /* a genuine packet: not what the corpus promises, nothing to judge */
    for (inplace = 0; inplace < 2; ++inplace) {
        k = gb_place(&gK, (size_t)v->ks, PL_MID, (unsigned)(idx & 3), 0, 0); memcpy(k, k0, (size_t)v->ks);
        n = gb_place(&gN, 12, PL_END, 0, 0, 0); memcpy(n, n0, 12);
        ad = gb_place(&gAD, adlen, PL_END, 0, 0, 0); if (adlen) memcpy(ad, ad0, adlen);
        gb_readonly(&gK); gb_readonly(&gN); gb_readonly(&gAD);
        if (inplace) { mo = gb_place(&gM2, plen, PL_END, 0, 0, 0); memcpy(mo, pkt0, plen); pk = mo; }
        else { pk = gb_place(&gC2, plen, PL_END, 0, 0, 0); memcpy(pk, pkt0, plen); gb_readonly(&gC2); mo = gb_place(&gM2, blen, PL_MID, (unsigned)(idx & 7), 0, 0xC3); }
        rc = lib_dec(v, mo, &ml, pk, plen, ad, adlen, n, k); ++n_verdict_rej;
        if (!inplace) gb_writable(&gC2);
        if (rc == -99) continue;
        if (rc == 0) { snprintf(key, sizeof key, "accept-forged:%s:structured-tag-difference", v->name); emit_viol(key, "a forged packet whose recomputed tag differs from the received one with %s was accepted (%s)", pat, inplace ? "in place" : "separate buffers"); }
        else for (i = 0; i < blen; ++i) if (mo[i]) { snprintf(key, sizeof key, "plaintext-not-zeroed:%s:%s", v->name, inplace ? "inplace" : "separate"); emit_viol(key, "rejected corpus forgery left plaintext byte %zu", i); break; }
    }
}

/* ------------------------------------------------------------------ one case */

static void run_case(const args_t *a, long idx, const variant_t *v, size_t adlen, size_t mlen, int rep, int is_long)
{
    rng_t r = rng_for(a->seed, 0xAEAD, (uint64_t)idx);
    int bc = (int)((rep + adlen + 2 * mlen + (size_t)(v - VARS)) % BC_N);
    int kbc = (rep % 4 == 3) ? (int)rnd(&r, BC_N) : BC_RANDOM;
    unsigned offs[5];
    int place_c, place_m, place_ad, alias, nullmode, i;
    uint8_t *c, *m, *ad, *k, *n, *mref, *cref;
    size_t clen = 0, mlen2 = 0;
    kctx_t kc;
    char key[128];

    /* Latin-square rotation: every offset meets every tail length */
    for (i = 0; i < 5; ++i) offs[i] = (unsigned)((idx * (2 * i + 1) + rep + i * 3 + (long)mlen) & 7);
    place_c = (int)((idx + rep) % 3); place_m = (int)((idx / 3 + rep) % 3); place_ad = (int)((idx / 9 + rep) % 3);
    alias = (int)((idx + rep / 2) % 3);      /* 0 separate, 1 encrypt in place, 2 decrypt in place */
    nullmode = (int)((idx >> 1) & 1);
    set_case("{\"h\":\"aead\",\"mode\":\"%s\",\"v\":\"%s\",\"i\":%ld,\"adlen\":%zu,\"mlen\":%zu,\"bytes\":\"%s\",\"keybytes\":\"%s\",\"place\":[%d,%d,%d],\"offs\":[%u,%u,%u,%u,%u],\"alias\":%d,\"null0\":%d}",
             a->mode, v->name, idx, adlen, mlen, bc_name[bc], bc_name[kbc], place_c, place_m, place_ad,
             offs[0], offs[1], offs[2], offs[3], offs[4], alias, nullmode);
    ++n_cases;
    if (is_long) ++n_long;
    cls_add(mix64(mix64((uint64_t)(v - VARS), is_long ? 1000 + (mlen > 65536) : adlen * 128 + mlen),
                  (uint64_t)(bc * 64 + alias * 16 + place_c * 4 + place_m)));
    if (idx % 997 == 0 || a->only >= 0) emit_sample();

    /* inputs */
    k = gb_place(&gK, (size_t)v->ks, PL_MID, offs[3], 0, 0);
    fill_class(&r, k, (size_t)v->ks, kbc);
    n = gb_place(&gN, 12, (idx & 4) ? PL_END : PL_MID, offs[4], 0, 0);
    fill_class(&r, n, 12, (rep % 5 == 4) ? bc : BC_RANDOM);
    ad = gb_place(&gAD, adlen, place_ad, offs[2], nullmode, 0);
    if (adlen) fill_class(&r, ad, adlen, bc);
    m = gb_place(&gM, mlen, place_m, offs[1], nullmode, 0);
    if (mlen) fill_class(&r, m, mlen, bc);
    if (place_ad == PL_END) ++n_guard_end; else if (place_ad == PL_START) ++n_guard_start; else ++n_mid;
    if ((!adlen || !mlen) && nullmode) ++n_null;
    if (OV.active) {       /* corpus entry: exactly these bytes (placement, aliasing, alignment still rotate with idx / rep) */
        memcpy(k, OV.k, (size_t)v->ks); memcpy(n, OV.n, 12);
        if (adlen) memcpy(ad, OV.ad, adlen);
        if (mlen) memcpy(m, OV.m, mlen);
    }
    /* two INPUT parameters may legally be the same memory: the associated data and the plaintext (equal lengths), the
     * nonce inside the key buffer.  Contents are what they are; only the pointers coincide. */
    if (!OV.active && adlen == mlen && mlen && idx % 5 == 2) { ad = m; ++n_shared_inputs; }
    if (!OV.active && idx % 7 == 3) { n = k + (idx % 4); ++n_shared_inputs; }
    gb_readonly(&gK); gb_readonly(&gN); gb_readonly(&gAD); gb_readonly(&gM);

    scratch_need(2 * (mlen + 16));
    mref = (uint8_t *)malloc(mlen + 1); cref = (uint8_t *)malloc(mlen + 16);
    if (mlen) memcpy(mref, m, mlen);

    kc.v = v; kc.ad = ad; kc.adlen = adlen; kc.n = n; kc.k = k;

    /* out-of-place encryption into an exactly sized buffer */
    c = gb_place(&gC, mlen + 8, place_c, offs[0], 0, (uint8_t)rnd64(&r));
    if (lib_enc(v, c, &clen, m, mlen, ad, adlen, n, k)) goto out;
    if (clen != mlen + 8) {
        snprintf(key, sizeof key, "clen-wrong:%s", v->name);
        emit_viol(key, "*clen=%zu expected %zu", clen, mlen + 8);
        goto out;
    }
    if (gb_canary_bad(&gC)) {
        snprintf(key, sizeof key, "encrypt-wrote-outside:%s", v->name);
        emit_viol(key, "canary next to the %zu-byte ciphertext buffer was modified", mlen + 8);
    }
    memcpy(cref, c, mlen + 8);

    /* touching but non-overlapping buffers (two slices of one arena): m directly after c, or c directly after m */
    if ((F_RT || F_MODEL) && mlen && !is_long && (idx % 4) == 1) {
        int m_after_c = (int)((idx / 4) & 1);
        uint8_t *ar = gb_place(&gM2, 2 * mlen + 8, PL_MID, offs[0], 0, (uint8_t)rnd64(&r)), *c2, *m2;
        size_t cl2 = 0, ml2 = 0;
        int rc;
        ASAN_UNPOISON(ar, 2 * mlen + 8);
        if (m_after_c) { c2 = ar; m2 = ar + mlen + 8; } else { m2 = ar; c2 = ar + mlen; }
        memcpy(m2, mref, mlen);
        ++n_adjacent;
        if (!lib_enc(v, c2, &cl2, m2, mlen, ad, adlen, n, k)) {
            if (cl2 != mlen + 8 || memcmp(c2, cref, mlen + 8)) {
                snprintf(key, sizeof key, "adjacent-buffers-differ:%s:encrypt", v->name);
                emit_viol(key, "encryption with the plaintext buffer directly %s the ciphertext buffer gives *clen=%zu and a different packet than with distant buffers", m_after_c ? "after" : "before", cl2);
            }
            if (memcmp(m2, mref, mlen)) { snprintf(key, sizeof key, "input-modified:%s", v->name); emit_viol(key, "adjacent plaintext buffer modified by encryption"); }
        }
        /* decrypt: ciphertext and plaintext output touching */
        if (m_after_c) { c2 = ar; m2 = ar + mlen + 8; } else { m2 = ar; c2 = ar + mlen; }
        memcpy(c2, cref, mlen + 8); memset(m2, 0x6B, mlen);
        rc = lib_dec(v, m2, &ml2, c2, mlen + 8, ad, adlen, n, k);
        if (rc != -99 && (rc != 0 || ml2 != mlen || memcmp(m2, mref, mlen))) {
            snprintf(key, sizeof key, "adjacent-buffers-differ:%s:decrypt", v->name);
            emit_viol(key, "decryption with the plaintext buffer directly %s the packet buffer returned %d", m_after_c ? "after" : "before", rc);
        }
    }

    if (F_MODEL) {
        uint8_t *mc = scratch_pkt;
        model_seal(v, mc, mref, mlen, ad, adlen, n, k);
        ++n_model_cmp; n_bytes_cmp += mlen + 8;
        if (memcmp(mc, cref, mlen + 8)) {
            size_t fd = 0; while (mc[fd] == cref[fd]) ++fd;
            snprintf(key, sizeof key, "spec-mismatch:%s:%s", v->name, fd >= mlen ? "tag" : "body");
            viol_bytes(key, "encrypt output differs from the specification", mc, cref, mlen + 8);
            goto out;
        }
        /* a second encryption into different junk must be identical (determinism / no dependence on output buffer) */
        {
            uint8_t *c2b = gb_place(&gC2, mlen + 8, PL_END, 0, 0, (uint8_t)rnd64(&r));
            size_t cl2 = 0;
            if (!lib_enc(v, c2b, &cl2, m, mlen, ad, adlen, n, k) && (cl2 != mlen + 8 || memcmp(c2b, cref, mlen + 8))) {
                snprintf(key, sizeof key, "nondeterministic:%s", v->name);
                emit_viol(key, "two encryptions of the same input differ");
            }
        }
    }

    if (F_RT || F_MODEL) {
        /* out-of-place or in-place decryption of the library's packet.  The receiver's copies of AD and key live at
         * DIFFERENT addresses, in a different alignment class (4-byte aligned vs not) than the sender's. */
        uint8_t *mo;
        int rc;
        {
            unsigned o2 = (offs[2] & 3) ? (offs[2] & 4) : ((offs[2] & 4) | (1 + (unsigned)(idx % 3)));
            uint8_t *ad2 = gb_place(&gAD2, adlen, adlen ? PL_MID : place_ad, o2, !nullmode, 0);
            uint8_t *k2 = gb_place(&gK2, (size_t)v->ks, PL_MID, (offs[3] & 3) ? 0 : 1 + (unsigned)(idx % 3), 0, 0);
            if (adlen) memcpy(ad2, ad, adlen);
            memcpy(k2, k, (size_t)v->ks);
            gb_readonly(&gAD2); gb_readonly(&gK2);
            kc.ad = ad2; kc.k = k2;
        }
#define ad kc.ad
#define k kc.k
        if (alias == 2) {
            mo = gb_place(&gM2, mlen + 8, place_c, offs[0], 0, 0);
            memcpy(mo, cref, mlen + 8);
            rc = lib_dec(v, mo, &mlen2, mo, mlen + 8, ad, adlen, n, k);
            ++n_inplace;
        } else {
            uint8_t *ci = gb_place(&gC2, mlen + 8, PL_END, 0, 0, 0);
            memcpy(ci, cref, mlen + 8);
            gb_readonly(&gC2);
            mo = gb_place(&gM2, mlen, place_m, offs[1], nullmode, (uint8_t)rnd64(&r));
            rc = lib_dec(v, mo, &mlen2, ci, mlen + 8, ad, adlen, n, k);
            gb_writable(&gC2);
        }
        if (rc != -99) {
            if (rc != 0) {
                snprintf(key, sizeof key, "roundtrip-rejected:%s:%s", v->name, alias == 2 ? "inplace" : "separate");
                emit_viol(key, "decrypt(encrypt(m)) returned %d", rc);
            } else {
                if (mlen2 != mlen) {
                    snprintf(key, sizeof key, "roundtrip-mlen:%s", v->name);
                    emit_viol(key, "*mlen=%zu expected %zu", mlen2, mlen);
                }
                if (mlen && memcmp(mo, mref, mlen)) {
                    snprintf(key, sizeof key, "roundtrip-plaintext:%s:%s", v->name, alias == 2 ? "inplace" : "separate");
                    viol_bytes(key, "decrypt(encrypt(m)) != m", mref, mo, mlen);
                }
                n_bytes_cmp += mlen;
                if (alias != 2 && gb_canary_bad(&gM2)) {
                    snprintf(key, sizeof key, "decrypt-wrote-outside:%s", v->name);
                    emit_viol(key, "canary next to the %zu-byte plaintext buffer was modified", mlen);
                }
            }
        }
        /* in-place encryption gives the same packet */
        if (alias == 1) {
            uint8_t *cb = gb_place(&gM2, mlen + 8, place_c, offs[0], 0, (uint8_t)rnd64(&r));
            size_t cl2 = 0;
            if (mlen) memcpy(cb, mref, mlen);
            ++n_inplace;
            if (!lib_enc(v, cb, &cl2, cb, mlen, ad, adlen, n, k)) {
                if (cl2 != mlen + 8 || memcmp(cb, cref, mlen + 8)) {
                    snprintf(key, sizeof key, "inplace-encrypt-differs:%s", v->name);
                    viol_bytes(key, "in-place encryption differs from out-of-place", cref, cb, mlen + 8);
                }
            }
        }
        /* inputs unchanged (they were read-only; compare anyway for the in-place-capable ones) */
        if (mlen && memcmp(m, mref, mlen)) {
            snprintf(key, sizeof key, "input-modified:%s", v->name);
            emit_viol(key, "the message input buffer was modified");
        }
#undef ad
#undef k
        gb_writable(&gAD2); gb_writable(&gK2);
        kc.ad = ad; kc.k = k;
    }

    if (F_MODEL) {
        /* interoperability: a packet made by the model (a foreign encryptor) must open */
        uint8_t *mc = scratch_pkt, *mo;
        uint8_t *ci = gb_place(&gC2, mlen + 8, PL_END, 0, 0, 0);
        int rc;
        model_seal(v, mc, mref, mlen, ad, adlen, n, k);
        memcpy(ci, mc, mlen + 8);
        gb_readonly(&gC2);
        mo = gb_place(&gM2, mlen, PL_END, 0, nullmode, 0x5E);
        rc = lib_dec(v, mo, &mlen2, ci, mlen + 8, ad, adlen, n, k);
        gb_writable(&gC2);
        if (rc != -99 && (rc != 0 || mlen2 != mlen || (mlen && memcmp(mo, mref, mlen)))) {
            snprintf(key, sizeof key, "interop-open:%s", v->name);
            emit_viol(key, "packet produced by the reference model: rc=%d mlen=%zu", rc, mlen2);
        }
    }

    gb_writable(&gM); gb_writable(&gAD); gb_writable(&gK); gb_writable(&gN);
    gb_readonly(&gAD); gb_readonly(&gK); gb_readonly(&gN);

    if (F_TAMPER) {
        battery_tamper(&kc, cref, mlen + 8, mref, &r, a->thorough && mlen <= 16 && adlen <= 16, 0);
        if (idx % 7 == 0) battery_short(&kc, &r);
    } else if (F_ZERO) {
        /* reduced battery focused on the wipe: one tamper per site, in place and out of place, recorded junk */
        uint8_t *p, etag[8], *em;
        int site;
        scratch_need(mlen + 32);
        p = scratch_pkt; em = scratch_m;
        for (site = 0; site < 12; ++site) {
            if (is_long && site != (int)(idx % 8) && site != 8 && site != 9) continue;
            kctx_t k2c = kc;
            uint8_t n2[12], k2[32];
            const char *what = "tag";
            memcpy(p, cref, mlen + 8);
            if (site < 8) p[mlen + (size_t)((site + idx) & 7)] ^= (uint8_t)(1u << rnd(&r, 8));
            else if (site == 8 && mlen) { p[rnd(&r, (uint32_t)mlen)] ^= (uint8_t)(1 + rnd(&r, 255)); what = "body"; }
            else if (site == 9) { memcpy(n2, n, 12); n2[rnd(&r, 12)] ^= 1; k2c.n = n2; what = "nonce"; }
            else if (site == 10) { memcpy(k2, k, (size_t)v->ks); k2[rnd(&r, (uint32_t)v->ks)] ^= 0x80; k2c.k = k2; what = "key"; }
            else if (site == 11 && adlen) { k2c.adlen = adlen - 1; what = "ad-truncated"; }
            else if (site >= 8) continue;
            if (is_long) {
                /* no model for multi-megabyte packets: any of these tampers is rejected except with probability 2^-64;
                 * expected tag := the packet's own tag XOR 0xFF.. so judge() expects a rejection */
                int q;
                for (q = 0; q < 8; ++q) etag[q] = (uint8_t)~p[mlen + q];
                judge(&k2c, p, mlen + 8, mref, etag, site & 1, (uint8_t)rnd64(&r), what);
            } else {
                model_open(v, em, etag, p, mlen, p + mlen, k2c.ad, k2c.adlen, k2c.n, k2c.k);
                judge(&k2c, p, mlen + 8, em, etag, site & 1, (uint8_t)rnd64(&r), what);
            }
        }
        /* and the untampered packet keeps its plaintext */
        if (!is_long) {
            memcpy(p, cref, mlen + 8);
            model_open(v, em, etag, p, mlen, p + mlen, ad, adlen, n, k);
            judge(&kc, p, mlen + 8, em, etag, (int)(idx & 1), 0x44, "valid");
        }
    }
    if (F_PAIRS)
        battery_pairs(&kc, mref, mlen, &r);

out:
    gb_writable(&gM); gb_writable(&gAD); gb_writable(&gK); gb_writable(&gN); gb_writable(&gC2);
    free(mref); free(cref);
}

int main(int argc, char **argv)
{
    args_t a = parse_args(argc, argv);
    long W = a.p1 > 0 ? a.p1 : 16, R = a.p2 > 0 ? a.p2 : 1, NL = a.p3, idx = 0, nv, v0;
    long vi, ad, ml, rep;
    install_crash_handlers();
    F_RT = strstr(a.mode, "rt") != NULL; F_MODEL = strstr(a.mode, "model") != NULL;
    F_TAMPER = strstr(a.mode, "tamper") != NULL; F_ZERO = strstr(a.mode, "zero") != NULL;
    F_PAIRS = strstr(a.mode, "pairs") != NULL;
    v0 = strstr(a.mode, "siv") ? 3 : 0; nv = strstr(a.mode, "both") ? 6 : 3;
    if (strstr(a.mode, "both")) v0 = 0;
    gb_init(&gC, "c", 1 << 16); gb_init(&gM, "m", 1 << 16); gb_init(&gAD, "ad", 1 << 12); gb_init(&gK, "key", 64);
    gb_init(&gN, "npub", 64); gb_init(&gM2, "m-out", 1 << 16); gb_init(&gC2, "c-in", 1 << 16);
    gb_init(&gAD2, "ad-receiver", 1 << 12); gb_init(&gK2, "key-receiver", 64);

    if (strstr(a.mode, "hugead")) {
        for (vi = 0; vi < 6; ++vi, ++idx) if (mine(&a, idx)) huge_ad_case(&a, idx, &VARS[vi]);
        NL = 0; W = -1;
    }
    if (strstr(a.mode, "hugetamper")) {
        for (vi = v0; vi < v0 + nv; ++vi, ++idx) if (mine(&a, idx)) huge_tamper_case(&a, idx, &VARS[vi]);
        NL = 0; W = -1;
    }
    if (strstr(a.mode, "special")) {
        FILE *f = special_open();
        special_t sp;
        if (!f) { if (a.batch == 0) emit_info("special corpus not available ($VERIF_SPECIAL)"); }
        else {
            while (special_next(f, &sp)) {
                int siv = !strcmp(sp.tok[0], "siv"), forge = !strcmp(sp.tok[0], "sivforge"), ks, rep2;
                if (!siv && !forge && strcmp(sp.tok[0], "aead")) continue;
                if (sp.ntok < 7) continue;
                ks = atoi(sp.tok[1]);
                vi = ((siv || forge) ? 3 : 0) + (ks == 16 ? 0 : ks == 24 ? 1 : 2);
                if (vi < v0 || vi >= v0 + nv) continue;
                if (forge) {
                    uint8_t fk[32], fn[12], fad[64], fp[80];
                    size_t al, pl;
                    special_unhex(sp.tok[2], fk, 32); special_unhex(sp.tok[3], fn, 12); al = special_unhex(sp.tok[4], fad, 64); pl = special_unhex(sp.tok[5], fp, 80);
                    if (pl >= 8 && mine(&a, idx)) special_forge_case(&a, idx, &VARS[vi], fk, fn, fad, al, fp, pl, sp.tok[sp.ntok - 1]);
                    ++idx;
                } else {
                    size_t al, ml2;
                    special_unhex(sp.tok[2], OV.k, 32); special_unhex(sp.tok[3], OV.n, 12); al = special_unhex(sp.tok[4], OV.ad, 64); ml2 = special_unhex(sp.tok[5], OV.m, 64);
                    for (rep2 = 0; rep2 < 9; ++rep2, ++idx) if (mine(&a, idx)) { OV.active = 1; ++n_special; run_case(&a, idx, &VARS[vi], al, ml2, rep2, 0); OV.active = 0; }
                }
            }
            fclose(f);
        }
        NL = 0; W = -1;
    }
    if (strstr(a.mode, "hugereject")) {
        int sh = a.p3 > 0 ? (int)a.p3 : 32;
        for (vi = v0; vi < v0 + 3; ++vi, ++idx) if (mine(&a, idx)) huge_reject_case(&a, idx, &VARS[vi], ((size_t)1 << sh) + 16);
        NL = 0; W = -1;
    }
    if (strstr(a.mode, "hugemsg")) {
        int li;
        for (li = 0; li < 2; ++li)
            for (vi = v0; vi < v0 + 3; ++vi, ++idx) {
                int sh = a.p3 > 0 ? (int)a.p3 : 32;        /* --p3 N scales the case down to 2^N (used to exercise this path in seconds) */
                if (mine(&a, idx)) huge_msg_case(&a, idx, &VARS[vi], li ? ((size_t)1 << (sh - 1)) + 3 : ((size_t)1 << sh) + 5);
            }
        NL = 0; W = -1;
    }
    if (strstr(a.mode, "sweep")) {
        /* dense length sweep: every mlen in 0..p3 for every variant, adlen rotating over 0..4 */
        for (vi = v0; vi < v0 + nv; ++vi)
            for (ml = 0; ml <= NL; ++ml, ++idx)
                if (mine(&a, idx)) run_case(&a, idx, &VARS[vi], (size_t)(ml % 5), (size_t)ml, (int)(ml % 7), 0);
        NL = 0; W = -1;
    }
    for (vi = v0; vi < v0 + nv; ++vi)
        for (ad = 0; ad <= W; ++ad)
            for (ml = 0; ml <= W; ++ml)
                for (rep = 0; rep < R; ++rep, ++idx)
                    if (mine(&a, idx)) run_case(&a, idx, &VARS[vi], (size_t)ad, (size_t)ml, (int)rep, 0);
    /* long cases: fixed lengths that cross 16-bit and 18-bit word/byte counters for EVERY variant, then random ones */
    {
        static const size_t FIXED[] = {65535, 65536, 65537, 65539, 131072 + 2, 262144, 262144 + 5, (1u << 20) + 1};
        long nfixed = (long)(sizeof FIXED / sizeof FIXED[0]) * nv;
        if (NL > 0 && !F_TAMPER)
            for (rep = 0; rep < nfixed; ++rep, ++idx) {
                if (!mine(&a, idx)) continue;
                run_case(&a, idx, &VARS[v0 + rep % nv], (size_t)(rep % 7), FIXED[rep / nv], (int)rep, 1);
            }
    }
    /* tamper mode: AD and message lengths beyond the window but short enough for the full bit-flip batteries */
    if (F_TAMPER) {
        static const size_t MED[] = {33, 36, 63, 64, 65, 100, 128, 129, 255, 256, 257, 300};
        for (rep = 0; rep < 12 * nv; ++rep, ++idx) {
            if (!mine(&a, idx)) continue;
            if ((rep / nv) % 2) run_case(&a, idx, &VARS[v0 + rep % nv], (size_t)(rep % 5), MED[rep / nv], (int)rep, 1);
            else run_case(&a, idx, &VARS[v0 + rep % nv], MED[rep / nv], (size_t)(1 + rep % 7), (int)rep, 1);
        }
        for (rep = 0; rep < 12 * nv; ++rep, ++idx) {          /* and the other role for each length */
            if (!mine(&a, idx)) continue;
            if ((rep / nv) % 2) run_case(&a, idx, &VARS[v0 + rep % nv], MED[rep / nv], (size_t)(rep % 6), (int)rep, 1);
            else run_case(&a, idx, &VARS[v0 + rep % nv], (size_t)(rep % 4), MED[rep / nv], (int)rep, 1);
        }
    }
    /* power-of-two neighbourhoods 2^k-1, 2^k, 2^k+1 (k = 7..15) as message length and as AD length, variants rotating */
    if (NL > 0 && !F_TAMPER)
        for (rep = 0; rep < 9 * 3 * 2; ++rep, ++idx) {
            size_t L = ((size_t)1 << (7 + rep / 6)) + (size_t)((rep / 2) % 3) - 1;
            if (!mine(&a, idx)) continue;
            if (rep % 2) run_case(&a, idx, &VARS[v0 + (rep / 2) % nv], L, (size_t)(rep % 9), (int)rep, 1);
            else run_case(&a, idx, &VARS[v0 + (rep / 2) % nv], (size_t)(rep % 11), L, (int)rep, 1);
        }
    for (rep = 0; rep < NL; ++rep, ++idx) {
        rng_t r = rng_for(a.seed, 0x1046, (uint64_t)rep);
        size_t mlen, adlen;
        if (!mine(&a, idx)) continue;
        if (rep < 6 && a.thorough) { mlen = ((size_t)1 << 20) + (size_t)rep % 4; adlen = rnd(&r, 40); }
        else if (rep >= 6 && rep < 9 && a.thorough && F_ZERO) { mlen = ((size_t)16 << 20) + (size_t)(rep % 4); adlen = 5; }
        else { mlen = (size_t)W + 1 + rnd(&r, rep % 3 ? 700 : 70000); adlen = rnd(&r, rep % 2 ? 40 : 3000); }
        if (rep % 5 == 4) { size_t t = mlen; mlen = adlen % 50; adlen = t; }      /* long AD, short message */
        run_case(&a, idx, &VARS[v0 + rep % nv], adlen, mlen, (int)rep, 1);
    }
    /* (the internal comparison primitive is deliberately not called directly: its signature is not part of the API,
     *  and the batteries above drive it through all six decrypt functions with every differing byte position) */

    emit_stat("evaluations", n_cases); if (n_special) emit_stat("special_corpus_cases", n_special); emit_stat("cases_with_two_inputs_sharing_memory", n_shared_inputs);
    emit_stat("encrypt_calls", n_enc); emit_stat("decrypt_calls", n_dec);
    emit_stat("tag_only_packets_opened_with_null_output", n_null_out);
    emit_stat("verdicts_expected_accept", n_verdict_acc); emit_stat("verdicts_expected_reject", n_verdict_rej);
    emit_stat("model_comparisons", n_model_cmp); emit_stat("bytes_compared", n_bytes_cmp);
    emit_stat("inplace_calls", n_inplace); emit_stat("forged_valid_packets", n_forged_ok);
    emit_stat("rejected_regions_inspected", n_zero_regions); emit_stat("rejected_region_bytes", n_zero_bytes);
    emit_stat("ad_end_guard_placements", n_guard_end); emit_stat("ad_start_guard_placements", n_guard_start);
    emit_stat("ad_mid_canary_placements", n_mid); emit_stat("null_zero_length_cases", n_null);
    emit_stat("siv_reuse_pairs", n_pairs); emit_stat("aead_control_pairs_related", n_ctl_pairs);
    emit_stat("short_input_calls", n_short); emit_stat("check_tag_direct_calls", n_checktag);
    emit_stat("long_cases", n_long); emit_stat("adjacent_buffer_cases", n_adjacent);
    finish();
    return 0;
}
