/*
 * Shared harness runtime: deterministic PRNG, byte classes, guard-page arena, class set,
 * line protocol to the Python engine, crash reporter.
 *
 * Line protocol on stdout (parsed by engine/core.py):
 *   S <name> <u64>      counter, summed over batches
 *   M <name> <u64>      counter, max over batches
 *   K <hex64> ...       class keys (distinct non-trivial case classes), unioned over batches
 *   E <json>            sample case descriptor
 *   V <key> <json>      violation (key has no spaces; json = replayable descriptor + witness)
 *   X <sig> <json>      crash: signal number and the descriptor of the case that was running
 *   I <text>            free-form information
 *   DONE                the batch ran to completion
 */
#ifndef VERIF_COMMON_H
#define VERIF_COMMON_H

#define _GNU_SOURCE 1
#include <stdint.h>
#include <stddef.h>
#include <stdio.h>
#include <stdlib.h>
#include <string.h>
#include <stdarg.h>
#include <signal.h>
#include <setjmp.h>
#include <unistd.h>
#include <errno.h>
#include <sys/mman.h>

#if defined(__has_feature)
#  if __has_feature(address_sanitizer)
#    define VERIF_ASAN 1
#  endif
#  if __has_feature(memory_sanitizer)
#    define VERIF_MSAN 1
#  endif
#  if __has_feature(thread_sanitizer)
#    define VERIF_TSAN 1
#  endif
#endif
#if defined(__SANITIZE_ADDRESS__) && !defined(VERIF_ASAN)
#  define VERIF_ASAN 1
#endif
#if defined(__SANITIZE_THREAD__) && !defined(VERIF_TSAN)
#  define VERIF_TSAN 1
#endif

#if defined(VERIF_ASAN)
void __asan_poison_memory_region(void const volatile *addr, size_t size);
void __asan_unpoison_memory_region(void const volatile *addr, size_t size);
#  define ASAN_POISON(p, n) __asan_poison_memory_region((p), (n))
#  define ASAN_UNPOISON(p, n) __asan_unpoison_memory_region((p), (n))
#else
#  define ASAN_POISON(p, n) ((void)0)
#  define ASAN_UNPOISON(p, n) ((void)0)
#endif
#if defined(VERIF_MSAN)
void __msan_poison(const volatile void *a, size_t size);
void __msan_unpoison(const volatile void *a, size_t size);
void __msan_check_mem_is_initialized(const volatile void *x, size_t size);
#  define MSAN_POISON(p, n) __msan_poison((p), (n))
#  define MSAN_UNPOISON(p, n) __msan_unpoison((p), (n))
#  define MSAN_CHECK(p, n) __msan_check_mem_is_initialized((p), (n))
#else
#  define MSAN_POISON(p, n) ((void)0)
#  define MSAN_UNPOISON(p, n) ((void)0)
#  define MSAN_CHECK(p, n) ((void)0)
#endif

#if defined(VERIF_MSAN)
/* clang 14's MSan has no interceptor for explicit_bzero: the libc routine's stores would be invisible and
 * every wiped state object would look uninitialised.  In MSan builds only, an equivalent instrumented
 * definition takes its place (tool limitation, not a change of behaviour). */
void explicit_bzero(void *p, size_t n)
{
    memset(p, 0, n);
    __asm__ volatile("" : : "r"(p) : "memory");
}
#endif

/* Valgrind client requests, only when the build asks for them. */
#if defined(VERIF_VALGRIND)
#  include <valgrind/memcheck.h>
#  define VG_UNDEF(p, n) VALGRIND_MAKE_MEM_UNDEFINED((p), (n))
#  define VG_DEF(p, n) VALGRIND_MAKE_MEM_DEFINED((p), (n))
#  define VG_CHECK(p, n) VALGRIND_CHECK_MEM_IS_DEFINED((p), (n))
#else
#  define VG_UNDEF(p, n) ((void)0)
#  define VG_DEF(p, n) ((void)0)
#  define VG_CHECK(p, n) (0)
#endif

/* ---------------------------------------------------------------- PRNG */

typedef struct { uint64_t s; } rng_t;

static inline uint64_t splitmix64(uint64_t *s)
{
    uint64_t z = (*s += 0x9E3779B97F4A7C15ULL);
    z = (z ^ (z >> 30)) * 0xBF58476D1CE4E5B9ULL;
    z = (z ^ (z >> 27)) * 0x94D049BB133111EBULL;
    return z ^ (z >> 31);
}
static inline rng_t rng_for(uint64_t seed, uint64_t stream, uint64_t index)
{
    rng_t r;
    uint64_t s = seed * 0xD1342543DE82EF95ULL + 0x2545F4914F6CDD1DULL;
    (void)splitmix64(&s);
    s ^= stream * 0xA24BAED4963EE407ULL;
    (void)splitmix64(&s);
    s ^= index * 0x9FB21C651E98DF25ULL;
    (void)splitmix64(&s);
    r.s = s;
    return r;
}
static inline uint64_t rnd64(rng_t *r) { return splitmix64(&r->s); }
static inline uint32_t rnd(rng_t *r, uint32_t n) { return n ? (uint32_t)(rnd64(r) % n) : 0; }

/* Byte classes: the KATs only ever use counting bytes < 0x21. */
enum { BC_RANDOM, BC_HIGH, BC_FF, BC_ZERO, BC_ONEBIT, BC_COUNT, BC_N };
static const char *const bc_name[BC_N] = {"random", "high", "ff", "zero", "onebit", "count"};

static inline void fill_class(rng_t *r, uint8_t *p, size_t n, int cls)
{
    size_t i;
    switch (cls) {
    case BC_RANDOM: for (i = 0; i < n; ++i) p[i] = (uint8_t)rnd64(r); break;
    case BC_HIGH:   for (i = 0; i < n; ++i) p[i] = (uint8_t)(0x80 | rnd64(r)); break;
    case BC_FF:     memset(p, 0xFF, n); break;
    case BC_ZERO:   memset(p, 0x00, n); break;
    case BC_ONEBIT: memset(p, 0, n); if (n) { size_t b = rnd64(r) % (n * 8); p[b >> 3] = (uint8_t)(1u << (b & 7)); } break;
    default:        for (i = 0; i < n; ++i) p[i] = (uint8_t)i; break;
    }
}
static inline void fill_random(rng_t *r, uint8_t *p, size_t n) { fill_class(r, p, n, BC_RANDOM); }

/* ---------------------------------------------------------------- output */

static char g_case[1024] = "{}";      /* descriptor of the case now running */
/* Where the guard-buffer arenas are mapped (uninstrumented builds; rotates with the batch number, "--addr N" in replay):
 * 0 wherever the kernel puts them, 1 below 2 GiB (upper half of every pointer zero), 2 straddling a multiple of 4 GiB,
 * 3 straddling k * 4 GiB + 2 GiB (bit 31 of the low word changes inside the buffer).  In classes 2 and 3 the boundary is
 * the start of the second data page, which every other mid-placed buffer is laid across (in every class mid-placed
 * buffers alternate between the start of the arena and straddling that page boundary). */
static int g_addr_class = 0, g_arena_no = 0;
static unsigned long long g_addr_ok = 0, g_addr_fallback = 0;

static inline void set_case(const char *fmt, ...)
{
    va_list ap;
    va_start(ap, fmt);
    vsnprintf(g_case, sizeof g_case, fmt, ap);
    va_end(ap);
    if (g_addr_class) {      /* part of the case: where the buffers live (see gb_init) */
        size_t l = strlen(g_case);
        if (l && g_case[l - 1] == '}' && l + 16 < sizeof g_case) snprintf(g_case + l - 1, sizeof g_case - l + 1, ",\"addr\":%d}", g_addr_class);
    }
}

static inline void hexs(char *dst, const uint8_t *p, size_t n, size_t maxn)
{
    static const char hx[] = "0123456789abcdef";
    size_t i, m = n < maxn ? n : maxn;
    for (i = 0; i < m; ++i) { dst[2 * i] = hx[p[i] >> 4]; dst[2 * i + 1] = hx[p[i] & 15]; }
    dst[2 * m] = 0;
    if (m < n) strcat(dst, "..");
}

static unsigned long g_nviol = 0;
static inline void emit_viol(const char *key, const char *fmt, ...)
{
    va_list ap;
    ++g_nviol;
    if (g_nviol > 200) return;          /* do not flood; the count is still reported */
    printf("V %s {\"case\":%s,\"witness\":\"", key, g_case);
    va_start(ap, fmt);
    vprintf(fmt, ap);
    va_end(ap);
    printf("\"}\n");
    fflush(stdout);
}
static inline void emit_stat(const char *name, unsigned long long v) { printf("S %s %llu\n", name, v); }
static inline void emit_max(const char *name, unsigned long long v) { printf("M %s %llu\n", name, v); }
static inline void emit_sample(void) { printf("E %s\n", g_case); }
static inline void emit_info(const char *fmt, ...)
{
    va_list ap;
    printf("I ");
    va_start(ap, fmt);
    vprintf(fmt, ap);
    va_end(ap);
    printf("\n");
}

/* ---------------------------------------------------------------- class set */

static uint64_t *g_cls = NULL;
static size_t g_cls_cap = 0, g_cls_n = 0;

static inline uint64_t mix64(uint64_t a, uint64_t b)
{
    uint64_t s = a ^ (b + 0x9E3779B97F4A7C15ULL + (a << 6) + (a >> 2));
    return splitmix64(&s);
}
static inline void cls_add(uint64_t k)
{
    size_t i, mask;
    if (k == 0) k = 1;
    if (g_cls_n * 2 >= g_cls_cap) {
        size_t ncap = g_cls_cap ? g_cls_cap * 2 : 4096, j;
        uint64_t *n = (uint64_t *)calloc(ncap, sizeof(uint64_t));
        if (!n) { fprintf(stderr, "oom\n"); exit(2); }
        for (j = 0; j < g_cls_cap; ++j)
            if (g_cls[j]) { size_t q = (size_t)(g_cls[j] * 0x9E3779B97F4A7C15ULL >> 20) & (ncap - 1); while (n[q]) q = (q + 1) & (ncap - 1); n[q] = g_cls[j]; }
        free(g_cls);
        g_cls = n;
        g_cls_cap = ncap;
    }
    mask = g_cls_cap - 1;
    i = (size_t)(k * 0x9E3779B97F4A7C15ULL >> 20) & mask;
    while (g_cls[i]) { if (g_cls[i] == k) return; i = (i + 1) & mask; }
    g_cls[i] = k;
    ++g_cls_n;
}
static inline void cls_emit(void)
{
    size_t i, col = 0;
    for (i = 0; i < g_cls_cap; ++i) {
        if (!g_cls[i]) continue;
        if (col == 0) printf("K");
        printf(" %llx", (unsigned long long)g_cls[i]);
        if (++col == 64) { printf("\n"); col = 0; }
    }
    if (col) printf("\n");
}

/* ---------------------------------------------------------------- crash reporter + guard faults */

static sigjmp_buf g_fault_jmp;
static volatile sig_atomic_t g_fault_armed = 0;
static void *volatile g_fault_addr = NULL;
static volatile int g_fault_sig = 0;

static void wr(const char *s) { ssize_t r = write(1, s, strlen(s)); (void)r; }

static void crash_handler(int sig, siginfo_t *si, void *uc)
{
    char num[16];
    (void)uc;
    if (g_fault_armed && (sig == SIGSEGV || sig == SIGBUS)) {
        g_fault_addr = si ? si->si_addr : NULL;
        g_fault_sig = sig;
        g_fault_armed = 0;
        siglongjmp(g_fault_jmp, 1);
    }
    fflush(stdout);
    snprintf(num, sizeof num, "%d", sig);
    wr("\nX "); wr(num); wr(" "); wr(g_case); wr("\n");
    _exit(100 + (sig & 31));
}

static inline void install_crash_handlers(void)
{
    struct sigaction sa;
    static uint8_t altstack[65536];
    stack_t ss;
    ss.ss_sp = altstack; ss.ss_size = sizeof altstack; ss.ss_flags = 0;
    sigaltstack(&ss, NULL);
    memset(&sa, 0, sizeof sa);
    sa.sa_sigaction = crash_handler;
    sa.sa_flags = SA_SIGINFO | SA_ONSTACK | SA_NODEFER;
    sigemptyset(&sa.sa_mask);
    sigaction(SIGABRT, &sa, NULL);
#if !defined(VERIF_ASAN) && !defined(VERIF_MSAN) && !defined(VERIF_TSAN)
    sigaction(SIGSEGV, &sa, NULL);
    sigaction(SIGBUS, &sa, NULL);
    sigaction(SIGFPE, &sa, NULL);
    sigaction(SIGILL, &sa, NULL);
#endif
    setvbuf(stdout, NULL, _IOFBF, 1 << 16);
}

/* ---------------------------------------------------------------- guard-page arena */

#ifndef MAP_FIXED_NOREPLACE
#define MAP_FIXED_NOREPLACE 0x100000
#endif
#ifndef MAP_32BIT
#define MAP_32BIT 0
#endif
#define PAGE 4096u
enum { PL_END = 0, PL_START = 1, PL_MID = 2 };
#define CANARY 64u

typedef struct {
    uint8_t *map;        /* whole mapping: guard | data pages | guard */
    size_t   data_pages;
    uint8_t *data;       /* first data page */
    uint8_t *ptr;        /* current buffer */
    size_t   len;
    int      place;
    int      ro;
    uint8_t  can_seed;
    int      toggle;
    size_t   slide;
    const char *role;
} gbuf_t;

static inline void gb_init(gbuf_t *g, const char *role, size_t maxlen)
{
    size_t pages = (maxlen + 2 * CANARY + 16 + PAGE - 1) / PAGE + 1;
    g->map = (uint8_t *)MAP_FAILED;
    if (g_addr_class == 1) g->map = (uint8_t *)mmap(NULL, (pages + 2) * PAGE, PROT_NONE, MAP_PRIVATE | MAP_ANONYMOUS | MAP_32BIT, -1, 0);
    else if (g_addr_class >= 2) {
        uintptr_t b = ((uintptr_t)(0x5A00u + 16u * (unsigned)(g_arena_no++ & 0xFF)) << 32) + (g_addr_class == 3 ? 0x80000000u : 0u);
        g->map = (uint8_t *)mmap((void *)(b - 2 * PAGE), (pages + 2) * PAGE, PROT_NONE, MAP_PRIVATE | MAP_ANONYMOUS | MAP_FIXED_NOREPLACE, -1, 0);
        if (g->map != (uint8_t *)MAP_FAILED && g->map != (uint8_t *)(b - 2 * PAGE)) { munmap(g->map, (pages + 2) * PAGE); g->map = (uint8_t *)MAP_FAILED; }   /* old kernels treat the flag as a hint */
    }
    if (g_addr_class == 1 && g->map != (uint8_t *)MAP_FAILED && ((uintptr_t)g->map >> 32) != 0) { munmap(g->map, (pages + 2) * PAGE); g->map = (uint8_t *)MAP_FAILED; }
    if (g_addr_class) { if (g->map != (uint8_t *)MAP_FAILED) ++g_addr_ok; else ++g_addr_fallback; }
    if (g->map == (uint8_t *)MAP_FAILED) g->map = (uint8_t *)mmap(NULL, (pages + 2) * PAGE, PROT_NONE, MAP_PRIVATE | MAP_ANONYMOUS, -1, 0);
    if (g->map == MAP_FAILED) { perror("mmap"); exit(2); }
    g->toggle = 0; g->slide = 0;
    g->data_pages = pages;
    g->data = g->map + PAGE;
    if (mprotect(g->data, pages * PAGE, PROT_READ | PROT_WRITE)) { perror("mprotect"); exit(2); }
    g->ptr = NULL; g->len = 0; g->place = PL_END; g->ro = 0; g->role = role; g->can_seed = 0;
}
static inline void gb_free(gbuf_t *g)
{
    if (g->map) munmap(g->map, (g->data_pages + 2) * PAGE);
    g->map = NULL;
}
/* Ensure capacity for len bytes (re-maps if the pool is too small). */
static inline void gb_reserve(gbuf_t *g, size_t len)
{
    if ((len + 2 * CANARY + 16 + PAGE - 1) / PAGE + 1 > g->data_pages) {
        const char *role = g->role;
        gb_free(g);
        gb_init(g, role, len);
    }
}
/* Place a buffer of len bytes.  PL_END: last byte abuts the trailing guard page.
 * PL_START: first byte abuts the leading guard page.  PL_MID: at offset `off` (0..7) from an
 * 8-byte boundary with 64-byte canaries (ASan-poisoned when available) on both sides.
 * For len == 0: nullmode 1 -> NULL, else a pointer INTO a guard page. */
static inline uint8_t *gb_place(gbuf_t *g, size_t len, int place, unsigned off, int nullmode, uint8_t junk)
{
    uint8_t *end = g->data + g->data_pages * PAGE;
    gb_reserve(g, len);
    end = g->data + g->data_pages * PAGE;
    if (g->ro) { mprotect(g->data, g->data_pages * PAGE, PROT_READ | PROT_WRITE); g->ro = 0; }
    ASAN_UNPOISON(g->data, g->data_pages * PAGE);
    g->len = len; g->place = place;
    if (len == 0) {
        g->ptr = nullmode ? NULL : end;    /* end == first byte of the trailing guard */
        return g->ptr;
    }
    if (place == PL_END) {
        g->ptr = end - len;
    } else if (place == PL_START) {
        g->ptr = g->data;
    } else {
        uint8_t *p = g->data + CANARY + 8 + (off & 7), *b = g->data + PAGE, *q;
        /* every other time: laid across the boundary between the first two data pages, same alignment class */
        g->toggle = (g->toggle + 1) % 3;
        /* state 1: the boundary falls inside the buffer, s bytes after its start, with s running over successive
         * placements through every value in 1..len-1 that keeps the requested alignment class (callers rotate `off`
         * over 0..7, so every byte position of a buffer meets the boundary; state objects keep their alignment) */
        {
            size_t s0 = (8 - (off & 7)) & 7, nslots;
            if (s0 == 0) s0 = 8;
            nslots = len >= 1 + s0 ? (len - 1 - s0) / 8 + 1 : 0;
            q = nslots ? b - (s0 + 8 * (g->slide++ % nslots)) : b;
        }
        if (g->toggle == 2 && len + CANARY <= PAGE && (((uintptr_t)(b - len)) & 7) == (off & 7)) q = b - len;      /* last byte just below the boundary */
        if (g->toggle && g->data_pages >= 2 && len >= 2 && q >= g->data + CANARY && q < b && q + len >= b && q + len + CANARY <= end) p = q;
        g->can_seed = junk;
        memset(p - CANARY, (int)(0xA5 ^ junk), CANARY);
        memset(p + len, (int)(0x5A ^ junk), CANARY);
        g->ptr = p;
    }
    memset(g->ptr, junk, len);
    if (place == PL_MID) {
        ASAN_POISON(g->ptr - CANARY, CANARY);
        ASAN_POISON(g->ptr + len, CANARY);
    }
    return g->ptr;
}
/* Make the pages that hold the buffer read-only (inputs). */
static inline void gb_readonly(gbuf_t *g)
{
    if (g->len == 0) return;
    mprotect(g->data, g->data_pages * PAGE, PROT_READ);
    g->ro = 1;
}
static inline void gb_writable(gbuf_t *g)
{
    if (g->ro) { mprotect(g->data, g->data_pages * PAGE, PROT_READ | PROT_WRITE); g->ro = 0; }
}
/* Returns 0 if the canaries are intact (PL_MID only), else 1 (before) / 2 (after). */
static inline int gb_canary_bad(gbuf_t *g)
{
    size_t i;
    if (g->len == 0 || g->place != PL_MID) return 0;
    ASAN_UNPOISON(g->ptr - CANARY, CANARY);
    ASAN_UNPOISON(g->ptr + g->len, CANARY);
    for (i = 0; i < CANARY; ++i) {
        if (g->ptr[-(ptrdiff_t)CANARY + (ptrdiff_t)i] != (uint8_t)(0xA5 ^ g->can_seed)) return 1;
        if (g->ptr[g->len + i] != (uint8_t)(0x5A ^ g->can_seed)) return 2;
    }
    return 0;
}
/* Classify a fault address against a buffer: returns 0 = unrelated, 1 = leading guard, 2 = trailing guard,
 * 3 = inside data pages (write to read-only input). */
static inline int gb_classify(const gbuf_t *g, const void *addr)
{
    const uint8_t *a = (const uint8_t *)addr;
    if (!g->map) return 0;
    if (a >= g->map && a < g->data) return 1;
    if (a >= g->data + g->data_pages * PAGE && a < g->data + (g->data_pages + 1) * PAGE) return 2;
    if (a >= g->data && a < g->data + g->data_pages * PAGE) return 3;
    return 0;
}

/* Arm the guard-fault catcher: usage
 *   if (GUARDED_CALL_BEGIN()) { call(); GUARDED_CALL_END(); } else { fault at g_fault_addr } */
#if !defined(VERIF_ASAN) && !defined(VERIF_MSAN) && !defined(VERIF_TSAN)
#  define GUARD_TRY() (g_fault_armed = 1, sigsetjmp(g_fault_jmp, 1) == 0)
#  define GUARD_END() (g_fault_armed = 0)
#else
#  define GUARD_TRY() (1)
#  define GUARD_END() ((void)0)
#endif

/* ---------------------------------------------------------------- corpus of rare-internal-value inputs
 * model/pinned/special.txt (searched with the model only, see model/mine.c); the engine passes its path in
 * $VERIF_SPECIAL.  One entry per line: kind, then fields (hex strings / decimal numbers), last the pattern name. */
typedef struct { char line[1400]; char *tok[10]; int ntok; } special_t;
static inline FILE *special_open(void) { const char *p = getenv("VERIF_SPECIAL"); return p && *p ? fopen(p, "r") : NULL; }
static inline int special_next(FILE *f, special_t *s)
{
    while (fgets(s->line, sizeof s->line, f)) {
        char *p = s->line;
        s->ntok = 0;
        while (*p && s->ntok < 10) {
            while (*p == ' ' || *p == '\n' || *p == '\r') *p++ = 0;
            if (!*p) break;
            s->tok[s->ntok++] = p;
            while (*p && *p != ' ' && *p != '\n' && *p != '\r') ++p;
        }
        if (s->ntok >= 3 && s->tok[0][0] != '#') return 1;
    }
    return 0;
}
static inline size_t special_unhex(const char *h, uint8_t *out, size_t cap)
{
    size_t n = 0;
    while (h[0] && h[1] && n < cap) {
        int a = h[0] <= '9' ? h[0] - '0' : (h[0] | 32) - 'a' + 10, b = h[1] <= '9' ? h[1] - '0' : (h[1] | 32) - 'a' + 10;
        out[n++] = (uint8_t)(a * 16 + b);
        h += 2;
    }
    return n;
}

/* ---------------------------------------------------------------- arguments */

typedef struct {
    uint64_t seed;
    long batch, nbatches;
    long only;            /* replay: run only this case index, -1 = all */
    int  thorough;
    const char *mode;
    long p1, p2, p3;      /* harness-specific parameters */
} args_t;

static inline args_t parse_args(int argc, char **argv)
{
    args_t a;
    int i, addr = -1;
    memset(&a, 0, sizeof a);
    a.seed = 1; a.nbatches = 1; a.only = -1; a.mode = "";
    for (i = 1; i < argc; ++i) {
        const char *s = argv[i], *v = (i + 1 < argc) ? argv[i + 1] : "";
        if (!strcmp(s, "--seed")) { a.seed = strtoull(v, NULL, 0); ++i; }
        else if (!strcmp(s, "--batch")) { a.batch = atol(v); ++i; }
        else if (!strcmp(s, "--nbatches")) { a.nbatches = atol(v); ++i; }
        else if (!strcmp(s, "--only")) { a.only = atol(v); ++i; }
        else if (!strcmp(s, "--thorough")) { a.thorough = 1; }
        else if (!strcmp(s, "--mode")) { a.mode = v; ++i; }
        else if (!strcmp(s, "--p1")) { a.p1 = atol(v); ++i; }
        else if (!strcmp(s, "--p2")) { a.p2 = atol(v); ++i; }
        else if (!strcmp(s, "--p3")) { a.p3 = atol(v); ++i; }
        else if (!strcmp(s, "--addr")) { addr = atoi(v); ++i; }
        else { fprintf(stderr, "unknown argument %s\n", s); exit(2); }
    }
    if (a.nbatches < 1) a.nbatches = 1;
#if !defined(VERIF_ASAN) && !defined(VERIF_MSAN) && !defined(VERIF_TSAN)
    g_addr_class = addr >= 0 ? (addr & 3) : (a.only >= 0 ? 0 : (int)(a.batch & 3));
#else
    (void)addr;      /* the sanitizers own the address space layout */
#endif
    return a;
}
/* Does this process own case index i? */
static inline int mine(const args_t *a, long i)
{
    if (a->only >= 0) return i == a->only;
    return (i % a->nbatches) == a->batch;
}
static inline void finish(void)
{
    cls_emit();
    emit_stat("violations_emitted", g_nviol);
    if (g_addr_ok) emit_stat("arenas_mapped_in_requested_address_class", g_addr_ok);
    if (g_addr_fallback) emit_stat("arenas_address_class_not_available", g_addr_fallback);
    printf("DONE\n");
    fflush(stdout);
}

#endif
