/* End-to-end probe for C18: the unmodified production shared library under `strace -e inject`. */
#include <stdio.h>
#include <string.h>
#include "TinyJAMBU.h"
int main(void)
{
    tinyjambu_prng_state_t st;
    unsigned char out[64];
    int rc, i, distinct = 0;
    rc = tinyjambu_prng_init(&st, (const unsigned char *)"e2e", 3);
    tinyjambu_prng_generate(&st, out, sizeof out);
    for (i = 1; i < 64; ++i) if (out[i] != out[0]) distinct = 1;
    printf("status=%d usable=%d blocks_differ=%d\n", rc != 0, distinct, memcmp(out, out + 32, 32) != 0);
    tinyjambu_prng_free(&st);
    return 0;
}
