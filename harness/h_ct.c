/*
 * Constant-time monitor A for C07: memcheck as a secret-taint tracker (the ctgrind method).
 *
 * Every secret is marked UNDEFINED before a library call (VALGRIND_MAKE_MEM_UNDEFINED); memcheck then reports any
 * conditional branch, address computation or system-call parameter that depends on it.  Public values (lengths,
 * counts, nonces, AD, salt, info, ciphertext and tag on decryption) stay defined.  After the call exactly what the
 * property declares public is declassified (outputs, verdict) before the harness touches it, so the harness itself
 * never branches on tainted data.  State objects are never blanket-tainted (their position counters are public);
 * taint reaches them only by data flow.
 *
 * Must run under valgrind; each shape is announced in valgrind's own output stream (VALGRIND_PRINTF) so that an
 * error report can be attributed to the shape that was running.
 *   --mode shapes    the public-shape enumeration (reduced unless --thorough)
 *   --mode control   positive control: an early-exit comparison of a tainted buffer inside the harness; memcheck
 *                    MUST report it, otherwise the whole monitor is blind and the run is inconclusive
 */
#include "common.h"
#include "TinyJAMBU.h"
#include <valgrind/memcheck.h>
#include <valgrind/valgrind.h>

typedef void (*enc_fn)(unsigned char *, size_t *, const unsigned char *, size_t, const unsigned char *, size_t, const unsigned char *, const unsigned char *);
typedef int (*dec_fn)(unsigned char *, size_t *, const unsigned char *, size_t, const unsigned char *, size_t, const unsigned char *, const unsigned char *);
static const struct { const char *name; int ks; enc_fn e; dec_fn d; } AE[6] = {
    {"aead128", 16, tinyjambu_128_aead_encrypt, tinyjambu_128_aead_decrypt}, {"aead192", 24, tinyjambu_192_aead_encrypt, tinyjambu_192_aead_decrypt},
    {"aead256", 32, tinyjambu_256_aead_encrypt, tinyjambu_256_aead_decrypt}, {"siv128", 16, tinyjambu_128_siv_encrypt, tinyjambu_128_siv_decrypt},
    {"siv192", 24, tinyjambu_192_siv_encrypt, tinyjambu_192_siv_decrypt}, {"siv256", 32, tinyjambu_256_siv_encrypt, tinyjambu_256_siv_decrypt}};

#define SECRET(p, n) do { if (n) VALGRIND_MAKE_MEM_UNDEFINED((p), (n)); } while (0)
#define PUBLIC(p, n) do { if (n) VALGRIND_MAKE_MEM_DEFINED((p), (n)); } while (0)

static unsigned long long n_shapes, n_calls, n_secret_bytes;
static void shape(const char *fmt, ...)
{
    va_list ap;
    va_start(ap, fmt); vsnprintf(g_case, sizeof g_case, fmt, ap); va_end(ap);
    VALGRIND_PRINTF("SHAPE %s\n", g_case);
    ++n_shapes;
    cls_add(mix64(0xC7, (uint64_t)n_shapes * 1315423911u + strlen(g_case)));
    if (n_shapes % 997 == 1) emit_sample();
}

/* entropy callback: delivered bytes are secret, the returned size is public */
typedef struct { uint64_t s; int deliveries[8]; int n; int pos; } ent_t;
static size_t ent_cb(void *ud, unsigned char *buf, size_t size)
{
    ent_t *e = (ent_t *)ud;
    size_t d = e->pos < e->n ? (size_t)e->deliveries[e->pos] : size, i;
    e->pos++;
    if (d > size) d = size;
    for (i = 0; i < d; ++i) buf[i] = (uint8_t)splitmix64(&e->s);
    SECRET(buf, d);
    n_secret_bytes += d;
    return d;
}

/* the OS entropy call, interposed: what the operating system delivers is secret too (system-source path) */
static uint64_t g_os_seed = 0x05EC;
ssize_t getrandom(void *buf, size_t len, unsigned int flags)
{
    size_t i; uint8_t *p = (uint8_t *)buf;
    (void)flags;
    for (i = 0; i < len; ++i) p[i] = (uint8_t)splitmix64(&g_os_seed);
    SECRET(buf, len);
    n_secret_bytes += len;
    return (ssize_t)len;
}
int getentropy(void *buf, size_t len) { getrandom(buf, len, 0); return 0; }

/* the deliberately leaky comparison used as positive control (kept out of line so that it really branches) */
__attribute__((noinline)) static int leaky_compare(const volatile uint8_t *a, const volatile uint8_t *b, size_t n)
{
    size_t i;
    for (i = 0; i < n; ++i) if (a[i] != b[i]) return -1;     /* early exit on secret data */
    return 0;
}

int main(int argc, char **argv)
{
    args_t a = parse_args(argc, argv);
    rng_t r = rng_for(a.seed, 0xC7C7, 0);
    static const size_t LL[] = {0, 1, 2, 3, 4, 5, 8, 17};
    static uint8_t key[128], nonce[12], ad[64], m[9000], c[9000], m2[9000], out[9000], info[64], salt[64];
    static uint8_t pk_arena[3 * 4096] __attribute__((aligned(4096)));
    uint8_t *const out_mid = out;
    long idx = 0;
    int v, i, j, t, tt;
    install_crash_handlers();
    if (!RUNNING_ON_VALGRIND) { fprintf(stderr, "h_ct must run under valgrind\n"); return 2; }
    fill_random(&r, key, sizeof key); fill_random(&r, nonce, 12); fill_random(&r, ad, sizeof ad); fill_random(&r, m, sizeof m);
    fill_random(&r, info, sizeof info); fill_random(&r, salt, sizeof salt);

    if (!strcmp(a.mode, "control")) {
        uint8_t x[16], y[16];
        int rc;
        memset(x, 7, 16); memset(y, 7, 16); y[9] = 8;
        SECRET(x, 16);
        shape("{\"h\":\"ct\",\"control\":\"early-exit compare of a secret buffer\"}");
        rc = leaky_compare(x, y, 16);
        PUBLIC(&rc, sizeof rc);
        emit_stat("evaluations", 1);
        printf("I control compare returned %d\n", rc);
        finish();
        return 0;
    }

    /* ---- AEAD / SIV: 12 entry points x (adlen, mlen) x verdicts */
    for (v = 0; v < 6; ++v)
        for (i = 0; i < 8; ++i)
            for (j = 0; j < 8; ++j, ++idx) {
                size_t adlen = LL[i], mlen = LL[j], clen = 0, ml2 = 0;
                int rc, verdicts = 10;
                if (!mine(&a, idx)) continue;
                shape("{\"h\":\"ct\",\"api\":\"%s-encrypt\",\"adlen\":%zu,\"mlen\":%zu}", AE[v].name, adlen, mlen);
                SECRET(key, AE[v].ks); SECRET(m, mlen); n_secret_bytes += (size_t)AE[v].ks + mlen;
                AE[v].e(c, &clen, m, mlen, ad, adlen, nonce, key);
                PUBLIC(c, mlen + 8); PUBLIC(key, AE[v].ks); PUBLIC(m, mlen); PUBLIC(&clen, sizeof clen);
                ++n_calls;
                for (tt = 0; tt < (mlen ? verdicts : 2 * verdicts); ++tt) {
                    /* a tag-only packet is opened a second time with a NULL output pointer (public: it is an argument value) */
                    int nullout = tt >= verdicts; t = tt % verdicts;
                    /* t = 0 accept; 1..8 reject with tag byte t-1 wrong; 9 reject via body */
                    if (t == 9 && mlen == 0) continue;
                    /* where the packet lies is public too: every other verdict has its received tag laid across a page
                     * boundary (1..7 bytes before it), the others sit mid-page */
                    uint8_t *out = (t & 1) ? out_mid : pk_arena + 2 * 4096 - (mlen + 8) + 1 + (size_t)((t / 2 + v) % 7);
                    memcpy(out, c, mlen + 8);
                    if (t >= 1 && t <= 8) out[mlen + (size_t)(t - 1)] ^= 0x40;
                    if (t == 9) out[mlen / 2] ^= 0x01;
                    shape("{\"h\":\"ct\",\"api\":\"%s-decrypt\",\"adlen\":%zu,\"mlen\":%zu,\"verdict\":\"%s\",\"site\":%d,\"null_output\":%d}", AE[v].name, adlen, mlen, t ? "reject" : "accept", t, nullout);
                    SECRET(key, AE[v].ks); n_secret_bytes += (size_t)AE[v].ks;
                    rc = AE[v].d(nullout ? NULL : m2, &ml2, out, mlen + 8, ad, adlen, nonce, key);
                    PUBLIC(&rc, sizeof rc); PUBLIC(m2, mlen); PUBLIC(key, AE[v].ks); PUBLIC(&ml2, sizeof ml2);
                    ++n_calls;
                    if ((rc == 0) != (t == 0)) { printf("I unexpected verdict rc=%d for %s\n", rc, g_case); }
                }
            }
    ++idx;
    /* ---- hash: secret message, public length and chunking */
    {
        static const size_t HL[] = {0, 1, 15, 16, 17, 31, 32, 33, 100};
        static const size_t CH[] = {0, 1, 5, 11, 16};
        for (i = 0; i < 9; ++i)
            for (j = 0; j < 5; ++j, ++idx) {
                tinyjambu_hash_state_t st;
                size_t len = HL[i], pos = 0;
                if (!mine(&a, idx)) continue;
                shape("{\"h\":\"ct\",\"api\":\"hash\",\"len\":%zu,\"chunk\":%zu}", len, CH[j]);
                SECRET(m, len); n_secret_bytes += len;
                if (CH[j] == 0) tinyjambu_hash(out, m, len);
                else {
                    tinyjambu_hash_init(&st);
                    while (pos < len) { size_t n = len - pos < CH[j] ? len - pos : CH[j]; tinyjambu_hash_update(&st, m + pos, n); pos += n; }
                    tinyjambu_hash_finalize(&st, out);
                    tinyjambu_hash_free(&st);
                }
                PUBLIC(out, 32); PUBLIC(m, len);
                ++n_calls;
            }
    }
    /* ---- HMAC: secret key (length class public) and message */
    {
        static const size_t KL[] = {0, 1, 31, 32, 63, 64, 65, 100};
        for (i = 0; i < 8; ++i)
            for (j = 0; j < 2; ++j, ++idx) {
                tinyjambu_hmac_state_t st;
                if (!mine(&a, idx)) continue;
                shape("{\"h\":\"ct\",\"api\":\"hmac\",\"keylen\":%zu,\"streamed\":%d}", KL[i], j);
                SECRET(key, KL[i]); SECRET(m, 50); n_secret_bytes += KL[i] + 50;
                if (!j) tinyjambu_hmac(out, key, KL[i], m, 50);
                else {
                    tinyjambu_hmac_init(&st, key, KL[i]); tinyjambu_hmac_update(&st, m, 13); tinyjambu_hmac_update(&st, m + 13, 37);
                    tinyjambu_hmac_finalize(&st, key, KL[i], out); tinyjambu_hmac_free(&st);
                }
                PUBLIC(out, 32); PUBLIC(key, KL[i]); PUBLIC(m, 50);
                ++n_calls;
            }
    }
    /* ---- HKDF: secret input key material; salt, info, lengths public */
    {
        static const size_t OL[] = {1, 32, 33, 100, 8160};
        for (i = 0; i < 5; ++i)
            for (j = 0; j < 2; ++j, ++idx) {
                tinyjambu_hkdf_state_t st;
                if (!mine(&a, idx)) continue;
                shape("{\"h\":\"ct\",\"api\":\"hkdf\",\"outlen\":%zu,\"incremental\":%d}", OL[i], j);
                SECRET(key, 40); n_secret_bytes += 40;
                if (!j) { int rc = tinyjambu_hkdf(out, OL[i], key, 40, salt, 16, info, 10); PUBLIC(&rc, sizeof rc); }
                else {
                    size_t half = OL[i] / 3;
                    tinyjambu_hkdf_extract(&st, key, 40, salt, 16);
                    tinyjambu_hkdf_expand(&st, info, 10, out, half); tinyjambu_hkdf_expand(&st, info, 10, out + half, OL[i] - half);
                    tinyjambu_hkdf_free(&st);
                }
                PUBLIC(out, OL[i]); PUBLIC(key, 40);
                ++n_calls;
            }
    }
    /* ---- PBKDF2: secret password; salt, count, outlen public */
    {
        static const unsigned long CN[] = {0, 1, 2, 3, 10};
        static const size_t OL[] = {1, 32, 33, 70};
        for (i = 0; i < 5; ++i)
            for (j = 0; j < 4; ++j, ++idx) {
                if (!mine(&a, idx)) continue;
                shape("{\"h\":\"ct\",\"api\":\"pbkdf2\",\"count\":%lu,\"outlen\":%zu,\"pwlen\":%d}", CN[i], OL[j], (i + j) % 2 ? 70 : 9);
                SECRET(key, (i + j) % 2 ? 70 : 9); n_secret_bytes += 70;
                tinyjambu_pbkdf2(out, OL[j], key, (i + j) % 2 ? 70 : 9, salt, 12, CN[i]);
                PUBLIC(out, OL[j]); PUBLIC(key, 70);
                ++n_calls;
            }
    }
    /* ---- PRNG: entropy as delivered in the callback and fed data are secret */
    {
        static const int DEL[3][2] = {{32, 32}, {7, 32}, {0, 0}};
        static const size_t GS[] = {1, 32, 33, 100, 1100};
        for (i = 0; i < 3; ++i)
            for (j = 0; j < 5; ++j, ++idx) {
                tinyjambu_prng_state_t st;
                ent_t e;
                int rc;
                if (!mine(&a, idx)) continue;
                memset(&e, 0, sizeof e); e.s = 0x9999 + (uint64_t)idx; e.deliveries[0] = DEL[i][0]; e.deliveries[1] = DEL[i][1]; e.n = 2;
                shape("{\"h\":\"ct\",\"api\":\"prng\",\"first_delivery\":%d,\"generate\":%zu}", DEL[i][0], GS[j]);
                rc = tinyjambu_prng_init_user(&st, ent_cb, &e, info, 10);
                PUBLIC(&rc, sizeof rc);
                tinyjambu_prng_generate(&st, out, GS[j]);            /* 1100 crosses the automatic reseed */
                PUBLIC(out, GS[j]);
                SECRET(m, 20);
                tinyjambu_prng_feed(&st, m, 20);
                PUBLIC(m, 20);
                rc = tinyjambu_prng_reseed(&st);
                PUBLIC(&rc, sizeof rc);
                tinyjambu_prng_set_reseed_limit(&st, 64);
                tinyjambu_prng_generate(&st, out, 200);
                PUBLIC(out, 200);
                tinyjambu_prng_free(&st);
                n_calls += 7;
            }
    }
    /* ---- PRNG with the reseed limit raised: more than 256 blocks since the last reseed, so that the upper bytes of the
     *      block counter take part in V = V + H + C + counter (the default limit never lets the counter pass 33) */
    for (i = 0; i < 2; ++i, ++idx) {
        tinyjambu_prng_state_t st;
        ent_t e;
        int rc;
        if (!mine(&a, idx)) continue;
        memset(&e, 0, sizeof e); e.s = 0x7777 + (uint64_t)idx; e.deliveries[0] = 32; e.deliveries[1] = 32; e.n = 2;
        shape("{\"h\":\"ct\",\"api\":\"prng-raised-limit\",\"limit\":%d,\"generate\":9000}", i ? 1048576 : 16384);
        rc = tinyjambu_prng_init_user(&st, ent_cb, &e, info, 10);
        PUBLIC(&rc, sizeof rc);
        tinyjambu_prng_set_reseed_limit(&st, i ? 1048576 : 16384);
        tinyjambu_prng_generate(&st, out, 9000);             /* 282 blocks, no reseed */
        PUBLIC(out, 9000);
        SECRET(m, 20);
        tinyjambu_prng_feed(&st, m, 20);
        PUBLIC(m, 20);
        tinyjambu_prng_generate(&st, out, 9000);             /* 564 blocks since the seed (i = 0: crosses the reseed at 512) */
        PUBLIC(out, 9000);
        tinyjambu_prng_free(&st);
        n_calls += 6;
    }
    /* ---- PRNG seeded and reseeded from the SYSTEM source: the OS-provided bytes are marked secret inside getrandom() */
    for (i = 0; i < 2; ++i, ++idx) {
        tinyjambu_prng_state_t st;
        int rc;
        if (!mine(&a, idx)) continue;
        shape("{\"h\":\"ct\",\"api\":\"prng-system-source\",\"null_callback\":%d}", i);
        rc = i ? tinyjambu_prng_init_user(&st, NULL, NULL, info, 10) : tinyjambu_prng_init(&st, info, 10);
        PUBLIC(&rc, sizeof rc);
        tinyjambu_prng_generate(&st, out, 1100);             /* crosses an automatic reseed from the OS */
        PUBLIC(out, 1100);
        rc = tinyjambu_prng_reseed(&st);
        PUBLIC(&rc, sizeof rc);
        tinyjambu_prng_generate(&st, out, 40);
        PUBLIC(out, 40);
        tinyjambu_prng_free(&st);
        n_calls += 5;
    }
    emit_stat("evaluations", n_shapes); emit_stat("library_calls_under_taint", n_calls); emit_stat("secret_bytes_marked", n_secret_bytes);
    finish();
    return 0;
}
