/*
 * Hash / HMAC monitor (properties C10, C11, C12).
 *   --mode hash     one-shot digest vs reference model: every length 0..p1, 6 byte classes, placements/alignments;
 *                   p3 random long lengths; (thorough) one multi-MiB message; bundled hashref as second opinion
 *   --mode stream   C11: all compositions of every n <= p1 into update calls; zero-length updates at every gap
 *                   (n <= p2); p3 random chunkings / interleaved histories over 4 state objects with shadows
 *   --mode huge     (thorough) single calls of 2^32+37 bytes vs the same bytes in pieces below 2^32; p1 = 0 hash, 1 hmac, 2 pending partial, 9 all
 *   --mode hmac     C12: key lengths 0..p1 x message-length list, one-shot / streamed / reinit histories
 */
#include "common.h"
#include "model.h"
#include "TinyJAMBU.h"

#if defined(HAVE_HASHREF)
int crypto_hash(unsigned char *out, const unsigned char *in, unsigned long long inlen);
int crypto_auth(unsigned char *out, const unsigned char *in, unsigned long long inlen, const unsigned char *k);
#endif

static gbuf_t gIN, gOUT, gKEY;
static unsigned long long n_forks, n_special, n_huge_bytes, n_eval, n_model, n_oneshot, n_seq, n_updates, n_zero_updates, n_hist_ops, n_finalize,
    n_ref, n_hmac, n_hmac_stream, n_reinit, n_bytes, n_rotated;

static void digest_mismatch(const char *key, const char *what, const uint8_t *exp, const uint8_t *got)
{
    char a[80], b[80];
    hexs(a, exp, 32, 32); hexs(b, got, 32, 32);
    emit_viol(key, "%s: expected %s got %s", what, a, b);
}

/* ------------------------------------------------------------------ C10 */

static void hash_case(const args_t *a, long idx, size_t len, int bc, int is_long)
{
    rng_t r = rng_for(a->seed, 0x4A54, (uint64_t)idx);
    int place = (int)(idx % 3);
    unsigned off = (unsigned)((idx / 3) & 7);
    int nullmode = (int)((idx >> 2) & 1);
    uint8_t *in, *out, exp[32], got[32];
    set_case("{\"h\":\"hash\",\"mode\":\"hash\",\"i\":%ld,\"len\":%zu,\"bytes\":\"%s\",\"place\":%d,\"off\":%u,\"null0\":%d}",
             idx, len, bc_name[bc], place, off, nullmode);
    ++n_eval;
    cls_add(mix64(is_long ? 100000 + (len >> 12) : len, (uint64_t)(bc * 32 + place * 8 + (int)off)));
    if (idx % 499 == 0 || a->only >= 0) emit_sample();
    in = gb_place(&gIN, len, place, off, nullmode, 0);
    if (len) fill_class(&r, in, len, bc);
    gb_readonly(&gIN);
    out = gb_place(&gOUT, 32, (int)((idx / 5) % 3), (unsigned)((idx / 7) & 7), 0, (uint8_t)rnd64(&r));
    MSAN_POISON(out, 32);
    if (GUARD_TRY()) { tinyjambu_hash(out, in, len); GUARD_END(); }
    else { emit_viol("guard-fault:tinyjambu_hash", "fault at %p (len=%zu)", g_fault_addr, len); gb_writable(&gIN); return; }
    MSAN_CHECK(out, 32);
    ++n_oneshot;
    memcpy(got, out, 32);
    if (gb_canary_bad(&gOUT)) emit_viol("wrote-outside:tinyjambu_hash", "canary next to the 32-byte digest buffer modified");
    m_hash(exp, in, len);
    ++n_model; n_bytes += len;
    if (memcmp(exp, got, 32)) {
        char key[64];
        snprintf(key, sizeof key, "hash-spec-mismatch:%s", len % 16 == 0 ? "len-multiple-of-16" : len < 16 ? "short" : "general");
        digest_mismatch(key, "digest differs from the documented MDPH construction", exp, got);
    }
#if defined(HAVE_HASHREF)
    if (len <= 4096) {
        uint8_t ref[32];
        crypto_hash(ref, in, len);
        ++n_ref;
        if (memcmp(ref, exp, 32)) digest_mismatch("reference-vs-model:hashref-hash", "tools/hashref/hash.c disagrees with the documented construction", exp, ref);
    }
#endif
    /* single-update streaming must agree as well (cheap extra path) */
    {
        tinyjambu_hash_state_t st;
        uint8_t d2[32];
        MSAN_POISON(&st, sizeof st);
        tinyjambu_hash_init(&st);
        tinyjambu_hash_update(&st, in, len);
        tinyjambu_hash_finalize(&st, d2);
        tinyjambu_hash_free(&st);
        if (memcmp(d2, got, 32)) digest_mismatch("hash-stream1-mismatch", "init/update/finalize differs from one-shot", got, d2);
    }
    gb_writable(&gIN);
}

/* ------------------------------------------------------------------ C11 */

static uint8_t msgbuf[1 << 14];

static void stream_compositions(const args_t *a, long *idx, int N, int NZ)
{
    int n;
    for (n = 1; n <= N; ++n) {
        uint8_t exp[32], mod[32];
        unsigned long mask, nm = 1ul << (n - 1);
        rng_t r = rng_for(a->seed, 0xC011, (uint64_t)n);
        fill_class(&r, msgbuf, (size_t)n, n % BC_N);
        tinyjambu_hash(exp, msgbuf, (size_t)n);
        m_hash(mod, msgbuf, (size_t)n);
        ++n_model;
        if (memcmp(exp, mod, 32) && mine(a, *idx)) digest_mismatch("hash-spec-mismatch:stream-base", "one-shot digest differs from model", mod, exp);
        for (mask = 0; mask < nm; ++mask, ++*idx) {
            tinyjambu_hash_state_t st;
            uint8_t d[32];
            int pos = 0, start = 0, zvar, nchunks = 0;
            if (!mine(a, *idx)) continue;
            /* zvar 0: plain; 1: zero-length update (NULL) at every gap incl. both ends; 2: same with non-NULL pointer */
            for (zvar = 0; zvar < (n <= NZ ? 3 : 1); ++zvar) {
                set_case("{\"h\":\"hash\",\"mode\":\"stream\",\"i\":%ld,\"n\":%d,\"composition_mask\":%lu,\"zero_updates\":%d}", *idx, n, mask, zvar);
                memset(&st, (int)(0xA0 + zvar + mask), sizeof st);     /* arbitrary prior contents */
                MSAN_POISON(&st, sizeof st);
                tinyjambu_hash_init(&st);
                start = 0; nchunks = 0;
                if (zvar) { tinyjambu_hash_update(&st, zvar == 1 ? NULL : msgbuf, 0); ++n_zero_updates; }
                for (pos = 1; pos <= n; ++pos) {
                    if (pos == n || (mask >> (pos - 1)) & 1ul) {
                        tinyjambu_hash_update(&st, msgbuf + start, (size_t)(pos - start));
                        ++n_updates; ++nchunks;
                        if (zvar) { tinyjambu_hash_update(&st, zvar == 1 ? NULL : msgbuf + pos, 0); ++n_zero_updates; }
                        start = pos;
                    }
                }
                tinyjambu_hash_finalize(&st, d);
                ++n_finalize; ++n_seq; ++n_eval;
                if (memcmp(d, exp, 32)) {
                    char key[80];
                    snprintf(key, sizeof key, "stream-split-mismatch:%s", zvar ? "with-zero-length-updates" : "composition");
                    digest_mismatch(key, "streamed digest differs from one-shot", exp, d);
                }
            }
            cls_add(mix64((uint64_t)n, mask));
            if (*idx % 40009 == 0 || a->only >= 0) emit_sample();
        }
    }
}

#define NST 4
typedef struct { uint8_t *data; size_t len, cap; int live; /* 0 = not initialised / finalized / freed, 1 = absorbing */  int forked; } shadow_t;

static void stream_history(const args_t *a, long idx)
{
    rng_t r = rng_for(a->seed, 0x4157, (uint64_t)idx);
    static tinyjambu_hash_state_t st[NST];
    static shadow_t sh[NST];
    int nops = 20 + (int)rnd(&r, 60), op, i;
    static const unsigned sizes[] = {0, 1, 2, 3, 5, 7, 8, 15, 16, 17, 31, 32, 33, 47, 48, 63, 64, 65, 100, 1000};
    char hist[600] = "";
    size_t hl = 0;
    for (i = 0; i < NST; ++i) {
        fill_random(&r, (uint8_t *)&st[i], sizeof st[i]);      /* arbitrary prior contents */
        MSAN_POISON(&st[i], sizeof st[i]);
        if (!sh[i].data) { sh[i].cap = 1 << 16; sh[i].data = (uint8_t *)malloc(sh[i].cap); }
        sh[i].len = 0; sh[i].live = 0; sh[i].forked = 0;
    }
    ++n_eval;
    for (op = 0; op < nops; ++op) {
        int s = (int)rnd(&r, NST), what = (int)rnd(&r, 12);
        if (!sh[s].live) what = what < 6 ? 0 : what < 9 ? 1 : what < 10 ? 9 : 10;   /* must (re)init first */
        ++n_hist_ops;
        if (hl + 16 < sizeof hist) hl += (size_t)snprintf(hist + hl, sizeof hist - hl, "%d%c", s, "IRuuuuuuFXCC"[what]);
        set_case("{\"h\":\"hash\",\"mode\":\"history\",\"i\":%ld,\"ops\":\"%s\"}", idx, hist);
        switch (what) {
        case 0: tinyjambu_hash_init(&st[s]); sh[s].len = 0; sh[s].live = 1; sh[s].forked = 0; break;
        case 1: tinyjambu_hash_reinit(&st[s]); sh[s].len = 0; sh[s].live = 1; sh[s].forked = 0; break;
        case 2: case 3: case 4: case 5: case 6: case 7: {
            size_t n = sizes[rnd(&r, sizeof sizes / sizeof sizes[0])];
            uint8_t *p;
            if (sh[s].len + n > sh[s].cap) n = 0;
            p = gb_place(&gIN, n, (int)rnd(&r, 3), rnd(&r, 8), (int)rnd(&r, 2), 0);
            if (n) fill_class(&r, p, n, (int)rnd(&r, BC_N));
            gb_readonly(&gIN);
            tinyjambu_hash_update(&st[s], p, n);
            gb_writable(&gIN);
            if (n) memcpy(sh[s].data + sh[s].len, p, n);
            sh[s].len += n;
            ++n_updates; if (!n) ++n_zero_updates;
            break; }
        case 8: {
            uint8_t d[32], e[32], mo[32];
            tinyjambu_hash_finalize(&st[s], d);
            if (sh[s].forked) { sh[s].live = 0; sh[s].forked = 0; break; }
            tinyjambu_hash(e, sh[s].data, sh[s].len);
            ++n_finalize;
            if (memcmp(d, e, 32)) digest_mismatch("history-mismatch:vs-oneshot", "digest of an interleaved history differs from one-shot hash of that state's own bytes", e, d);
            if (sh[s].len <= 2048) { m_hash(mo, sh[s].data, sh[s].len); ++n_model; if (memcmp(d, mo, 32)) digest_mismatch("history-mismatch:vs-model", "digest differs from model", mo, d); }
            sh[s].live = 0;     /* continuing a finalized state is unspecified: never done */
            break; }
        case 9: tinyjambu_hash_free(&st[s]); sh[s].live = 0; MSAN_POISON(&st[s], sizeof st[s]); break;
        default: {      /* overwrite this state object with another state's bytes (a stale copy), then it must be re-initialised */
            int o = (s + 1 + (int)rnd(&r, NST - 1)) % NST;
            MSAN_UNPOISON(&st[o], sizeof st[o]);
            memcpy(&st[s], &st[o], sizeof st[s]);
            if (!sh[o].live) MSAN_POISON(&st[o], sizeof st[o]);
            sh[s].live = 0;
            /* every other time the copy of a LIVE state is used as it is (a forked computation: update / finalize without
             * init).  What the fork itself computes is not judged - the property does not say - but nothing done to it
             * may disturb the state it was copied from, which stays live and is judged as before. */
            if (sh[o].live && !sh[o].forked && what == 11) { sh[s].live = 1; sh[s].forked = 1; sh[s].len = 0; ++n_forks; }
            break; }
        }
    }
    /* drain: every live state is finalized and judged */
    for (i = 0; i < NST; ++i)
        if (sh[i].live && !sh[i].forked) {
            uint8_t d[32], e[32];
            tinyjambu_hash_finalize(&st[i], d);
            tinyjambu_hash(e, sh[i].data, sh[i].len);
            ++n_finalize;
            if (memcmp(d, e, 32)) digest_mismatch("history-mismatch:vs-oneshot", "digest of an interleaved history differs from one-shot hash of that state's own bytes", e, d);
        }
    cls_add(mix64(0x4157, (uint64_t)idx));
    if (idx % 997 == 0 || a->only >= 0) emit_sample();
}

static void stream_megabyte(const args_t *a, long idx)
{
    size_t total = ((size_t)1 << 20) + 21, first = 5 + (size_t)(idx % 11), pos;
    uint8_t *msg = (uint8_t *)malloc(total), d[32], e[32], o[32];
    rng_t r = rng_for(a->seed, 0x4E6A, (uint64_t)idx);
    tinyjambu_hash_state_t st;
    set_case("{\"h\":\"hash\",\"mode\":\"megabyte\",\"i\":%ld,\"total\":%zu,\"chunks\":\"%zu,rest | 4096-byte updates | one-shot\"}", idx, total, first);
    fill_random(&r, msg, total);
    m_hash(e, msg, total); ++n_model;
    tinyjambu_hash_init(&st); tinyjambu_hash_update(&st, msg, first); tinyjambu_hash_update(&st, msg + first, total - first); tinyjambu_hash_finalize(&st, d);
    ++n_eval; ++n_seq; n_updates += 2; ++n_finalize;
    if (memcmp(d, e, 32)) digest_mismatch("stream-split-mismatch:megabyte-single-update", "init, update(few), update(1 MiB+) differs from the model", e, d);
    tinyjambu_hash_init(&st);
    for (pos = 0; pos < total; pos += 4096) { tinyjambu_hash_update(&st, msg + pos, total - pos < 4096 ? total - pos : 4096); ++n_updates; }
    tinyjambu_hash_finalize(&st, d); ++n_finalize;
    if (memcmp(d, e, 32)) digest_mismatch("stream-split-mismatch:megabyte-4096-chunks", "4096-byte updates of a 1 MiB+ message differ from the model", e, d);
    tinyjambu_hash(o, msg, total);
    if (memcmp(o, e, 32)) digest_mismatch("stream-split-mismatch:megabyte-oneshot", "one-shot hash of a 1 MiB+ message differs from the model", e, o);
    cls_add(mix64(0x4E6A, (uint64_t)idx));
    emit_sample();
    free(msg);
}

/* ---- single calls of 2^32 bytes and more (thorough): one-shot == the same bytes fed in pieces below 2^32 ----
 * The bit-serial model needs hours for 4 GiB; the library's behaviour for pieces below 2^32 is pinned to the model by
 * every other case, so the streamed digests are the reference here.  Three computations run in three threads. */
#include <pthread.h>
#include <sys/mman.h>
typedef struct { int kind, variant; const uint8_t *msg; size_t total; const uint8_t *key; size_t keylen; uint8_t out[32]; } huge_job_t;
static void *huge_thread(void *arg)
{
    huge_job_t *j = (huge_job_t *)arg;
    size_t pos = 0, n, k = 0;
    static const size_t P1[] = {((size_t)1 << 30) - 3, ((size_t)1 << 30) + 5, ((size_t)1 << 29) + 17, ((size_t)1 << 31) - 1};
    if (j->variant == 0) {               /* hash */
        tinyjambu_hash_state_t st;
        if (j->kind == 0) { tinyjambu_hash(j->out, j->msg, j->total); return NULL; }
        tinyjambu_hash_init(&st);
        if (j->kind == 1) { tinyjambu_hash_update(&st, j->msg, 0xFFFFFFFFu); tinyjambu_hash_update(&st, j->msg + 0xFFFFFFFFu, j->total - 0xFFFFFFFFu); }
        else while (pos < j->total) { n = P1[k++ % 4]; if (n > j->total - pos) n = j->total - pos; tinyjambu_hash_update(&st, j->msg + pos, n); pos += n; }
        tinyjambu_hash_finalize(&st, j->out);
    } else if (j->variant == 1) {        /* hmac */
        tinyjambu_hmac_state_t st;
        if (j->kind == 0) { tinyjambu_hmac(j->out, j->key, j->keylen, j->msg, j->total); return NULL; }
        tinyjambu_hmac_init(&st, j->key, j->keylen);
        if (j->kind == 1) { tinyjambu_hmac_update(&st, j->msg, 0xFFFFFFFFu); tinyjambu_hmac_update(&st, j->msg + 0xFFFFFFFFu, j->total - 0xFFFFFFFFu); }
        else while (pos < j->total) { n = P1[k++ % 4]; if (n > j->total - pos) n = j->total - pos; tinyjambu_hmac_update(&st, j->msg + pos, n); pos += n; }
        tinyjambu_hmac_finalize(&st, j->key, j->keylen, j->out);
    } else {                             /* hash: short update, then ONE update with everything else (partial block pending + >= 2^32 bytes) */
        tinyjambu_hash_state_t st;
        size_t first = j->variant == 3 ? 5 : 7;          /* variant 3: the second length is 2^32 + 3, less than a block modulo 2^32 */
        tinyjambu_hash_init(&st);
        if (j->kind == 0) { tinyjambu_hash_update(&st, j->msg, first); tinyjambu_hash_update(&st, j->msg + first, j->total - first); }
        else if (j->kind == 1) { tinyjambu_hash_update(&st, j->msg, 0xFFFFFFFFu); tinyjambu_hash_update(&st, j->msg + 0xFFFFFFFFu, j->total - 0xFFFFFFFFu); }
        else while (pos < j->total) { n = P1[k++ % 4]; if (n > j->total - pos) n = j->total - pos; tinyjambu_hash_update(&st, j->msg + pos, n); pos += n; }
        tinyjambu_hash_finalize(&st, j->out);
    }
    return NULL;
}

static void huge_case(const args_t *a, long idx, int variant)
{
    size_t total = variant == 3 ? ((size_t)1 << 32) + 8 : ((size_t)1 << 32) + 37 + (size_t)(variant == 2 ? 16 : 0), i;
    uint8_t *msg = (uint8_t *)mmap(NULL, total, PROT_READ | PROT_WRITE, MAP_PRIVATE | MAP_ANONYMOUS | MAP_NORESERVE, -1, 0), key[40], small[32];
    rng_t r = rng_for(a->seed, 0x4B16, (uint64_t)idx);
    huge_job_t j[3];
    pthread_t th[3];
    static const char *vn[] = {"hash", "hmac", "hash-pending-partial", "hash-pending-partial-short-residue"};
    if (msg == MAP_FAILED) { perror("mmap"); exit(2); }
    set_case("{\"h\":\"hash\",\"mode\":\"huge\",\"i\":%ld,\"variant\":\"%s\",\"total\":%zu}", idx, vn[variant], total);
    /* sparse message: random bytes at the start, around every 2^30 boundary and at the end; zero pages elsewhere */
    fill_random(&r, msg, 4096);
    for (i = 1; i <= 4; ++i) fill_random(&r, msg + (i << 30) - 64, i == 4 ? 64 + (total - ((size_t)1 << 32)) : 128);
    fill_random(&r, key, sizeof key);
    for (i = 0; i < 3; ++i) { j[i].kind = (int)i; j[i].variant = variant; j[i].msg = msg; j[i].total = total; j[i].key = key; j[i].keylen = sizeof key; memset(j[i].out, 0, 32); }
    for (i = 0; i < 3; ++i) if (pthread_create(&th[i], NULL, huge_thread, &j[i])) { perror("pthread_create"); exit(2); }
    for (i = 0; i < 3; ++i) pthread_join(th[i], NULL);
    ++n_eval; ++n_oneshot; n_seq += 2; n_updates += 2 + 5; n_finalize += 3; n_huge_bytes += 3 * (unsigned long long)total;
    if (memcmp(j[1].out, j[2].out, 32)) digest_mismatch("huge-mismatch:streamed-vs-streamed", "two chunkings (all pieces below 2^32) of a 2^32+ byte message disagree", j[2].out, j[1].out);
    { char k[96]; snprintf(k, sizeof k, "huge-mismatch:single-call-vs-streamed:%s", vn[variant]);
      if (memcmp(j[0].out, j[2].out, 32)) digest_mismatch(k, "a single call with >= 2^32 bytes differs from the same bytes fed in pieces below 2^32", j[2].out, j[0].out); }
    /* and it is not the digest of the message with 2^32 bytes dropped */
    if (variant == 0) { tinyjambu_hash(small, msg, total - ((size_t)1 << 32)); if (!memcmp(small, j[0].out, 32)) digest_mismatch("huge-mismatch:equals-truncated", "digest equals that of the first (len mod 2^32) bytes", j[2].out, j[0].out); }
    cls_add(mix64(0x4B16, (uint64_t)variant));
    emit_sample();
    munmap(msg, total);
}

static void stream_random_chunks(const args_t *a, long idx)
{
    rng_t r = rng_for(a->seed, 0xC4C4, (uint64_t)idx);
    static const unsigned sizes[] = {0, 1, 2, 3, 4, 5, 6, 7, 8, 9, 10, 11, 12, 13, 14, 15, 16, 17, 18, 30, 31, 32, 33, 47, 48, 49, 63, 64, 65, 100, 1000};
    size_t total = rnd(&r, 8192), pos = 0;
    tinyjambu_hash_state_t st;
    uint8_t d[32], e[32];
    char chunks[400] = "";
    size_t cl = 0;
    fill_class(&r, msgbuf, total, (int)rnd(&r, BC_N));
    MSAN_POISON(&st, sizeof st);
    tinyjambu_hash_init(&st);
    while (pos < total) {
        size_t n = sizes[rnd(&r, sizeof sizes / sizeof sizes[0])];
        if (n > total - pos) n = total - pos;
        tinyjambu_hash_update(&st, n || rnd(&r, 2) ? msgbuf + pos : NULL, n);
        if (cl + 8 < sizeof chunks) cl += (size_t)snprintf(chunks + cl, sizeof chunks - cl, "%zu,", n);
        pos += n; ++n_updates; if (!n) ++n_zero_updates;
    }
    set_case("{\"h\":\"hash\",\"mode\":\"chunks\",\"i\":%ld,\"total\":%zu,\"chunks\":\"%s\"}", idx, total, chunks);
    tinyjambu_hash_finalize(&st, d);
    tinyjambu_hash(e, msgbuf, total);
    ++n_finalize; ++n_eval; ++n_seq;
    if (memcmp(d, e, 32)) digest_mismatch("stream-split-mismatch:random-chunks", "streamed digest differs from one-shot", e, d);
    cls_add(mix64(0xC4C4, (uint64_t)idx));
    if (idx % 997 == 0 || a->only >= 0) emit_sample();
}

/* ------------------------------------------------------------------ C12 */

static void hmac_case(const args_t *a, long idx, size_t keylen, size_t mlen)
{
    rng_t r = rng_for(a->seed, 0x43AC, (uint64_t)idx);
    int bc = (int)((keylen + mlen + (size_t)idx) % BC_N), nullmode = (int)(idx & 1);
    uint8_t *key, *in, *out, exp[32], got[32], d2[32];
    tinyjambu_hmac_state_t st, other;
    set_case("{\"h\":\"hash\",\"mode\":\"hmac\",\"i\":%ld,\"keylen\":%zu,\"mlen\":%zu,\"bytes\":\"%s\",\"null0\":%d}", idx, keylen, mlen, bc_name[bc], nullmode);
    ++n_eval;
    cls_add(mix64(keylen * 8192 + mlen, (uint64_t)bc));
    if (idx % 499 == 0 || a->only >= 0) emit_sample();
    key = gb_place(&gKEY, keylen, (int)(idx % 3), (unsigned)(idx & 7), nullmode, 0);
    if (keylen) fill_class(&r, key, keylen, bc == BC_COUNT ? BC_RANDOM : bc);
    in = gb_place(&gIN, mlen, (int)((idx / 3) % 3), (unsigned)((idx >> 3) & 7), nullmode, 0);
    if (mlen) fill_class(&r, in, mlen, bc);
    /* the message may legally be (or lie inside) the key buffer: both are inputs */
    if (mlen && mlen <= keylen && idx % 4 == 2) in = key + (keylen - mlen);
    gb_readonly(&gKEY); gb_readonly(&gIN);
    out = gb_place(&gOUT, 32, PL_END, 0, 0, (uint8_t)rnd64(&r));
    MSAN_POISON(out, 32);
    if (GUARD_TRY()) { tinyjambu_hmac(out, key, keylen, in, mlen); GUARD_END(); }
    else { emit_viol("guard-fault:tinyjambu_hmac", "fault at %p (keylen=%zu mlen=%zu)", g_fault_addr, keylen, mlen); goto done; }
    MSAN_CHECK(out, 32);
    memcpy(got, out, 32);
    ++n_hmac;
    m_hmac(exp, key, keylen, in, mlen);
    ++n_model; n_bytes += mlen + keylen;
    if (memcmp(exp, got, 32)) {
        char k[80];
        snprintf(k, sizeof k, "hmac-spec-mismatch:%s", keylen > 64 ? "key-longer-than-block" : keylen == 64 ? "key-equals-block" : keylen == 0 ? "empty-key" : "key-shorter-than-block");
        digest_mismatch(k, "one-shot HMAC differs from RFC 2104 over the model hash", exp, got);
    }
#if defined(HAVE_HASHREF)
    if (keylen == 32) {
        uint8_t ref[32];
        crypto_auth(ref, in, mlen, key);
        ++n_ref;
        if (memcmp(ref, exp, 32)) digest_mismatch("reference-vs-model:hashref-hmac", "tools/hashref/hmac.c disagrees with RFC 2104 over the model hash", exp, ref);
    }
#endif
    /* incremental, random chunking, key presented at a different address for finalize */
    {
        uint8_t keycopy[2048];
        size_t pos = 0;
        if (keylen) memcpy(keycopy, key, keylen);
        MSAN_POISON(&st, sizeof st);
        tinyjambu_hmac_init(&st, key, keylen);
        /* a second, unrelated HMAC object (80-byte key: the hashed-key path) is started now and finished afterwards: two
         * computations in flight on two objects, one thread */
        { static uint8_t okey[80]; size_t q; for (q = 0; q < sizeof okey; ++q) okey[q] = (uint8_t)(idx * 7 + q * 3 + 1);
          MSAN_POISON(&other, sizeof other); tinyjambu_hmac_init(&other, okey, sizeof okey); tinyjambu_hmac_update(&other, okey, 33);
        while (pos < mlen) {
            size_t n = 1 + rnd(&r, 40);
            if (rnd(&r, 5) == 0) n = 0;
            if (n > mlen - pos) n = mlen - pos;
            tinyjambu_hmac_update(&st, n ? in + pos : NULL, n);
            pos += n; ++n_updates;
        }
        tinyjambu_hmac_finalize(&st, keylen ? keycopy : NULL, keylen, d2);
        ++n_hmac_stream;
        if (memcmp(d2, exp, 32)) digest_mismatch("hmac-stream-mismatch", "incremental HMAC differs from the model", exp, d2);
          { uint8_t eo[32], dother[32]; tinyjambu_hmac_finalize(&other, okey, sizeof okey, dother); tinyjambu_hmac_free(&other);
            if (idx % 8 == 0) { m_hmac(eo, okey, sizeof okey, okey, 33); ++n_model; if (memcmp(dother, eo, 32)) digest_mismatch("hmac-stream-mismatch:second-object-in-flight", "an HMAC started before and finished after another object's computation differs from the model", eo, dother); } } }
        /* reinit after an arbitrary absorbed prefix, then a fresh message */
        {
            size_t pre = mlen ? rnd(&r, (uint32_t)mlen + 1) : 0;
            tinyjambu_hmac_reinit(&st, key, keylen);
            tinyjambu_hmac_update(&st, in, pre);            /* abandoned prefix */
            tinyjambu_hmac_reinit(&st, key, keylen);
            tinyjambu_hmac_update(&st, in, mlen);
            tinyjambu_hmac_finalize(&st, key, keylen, d2);
            ++n_reinit;
            if (memcmp(d2, exp, 32)) digest_mismatch("hmac-reinit-mismatch", "HMAC after reinit (abandoned prefix) differs from the model", exp, d2);
            /* reuse right after finalize via reinit (the PBKDF2 pattern) */
            tinyjambu_hmac_reinit(&st, key, keylen);
            tinyjambu_hmac_update(&st, in, mlen);
            tinyjambu_hmac_finalize(&st, key, keylen, d2);
            if (memcmp(d2, exp, 32)) digest_mismatch("hmac-reinit-mismatch", "HMAC via reinit after finalize differs from the model", exp, d2);
        }
        /* re-key the same state object with a DIFFERENT key (short after long, long after short, long after long):
         * nothing of the previous key may survive in the state */
        {
            static const size_t K2L[] = {0, 5, 32, 64, 65, 100, 200};
            uint8_t key2[256], e2[32];
            size_t k2l = K2L[(size_t)idx % 7];
            fill_random(&r, key2, sizeof key2);
            tinyjambu_hmac_reinit(&st, key2, k2l);
            tinyjambu_hmac_update(&st, in, mlen);
            tinyjambu_hmac_finalize(&st, key2, k2l, d2);
            m_hmac(e2, key2, k2l, in, mlen);
            ++n_reinit; ++n_model;
            if (memcmp(d2, e2, 32)) {
                char k[96];
                snprintf(k, sizeof k, "hmac-rekey-mismatch:%s-after-%s", k2l > 64 ? "long" : "short", keylen > 64 ? "long" : "short");
                digest_mismatch(k, "HMAC after reinit with a different key differs from the model", e2, d2);
            }
            /* and a state abandoned mid-message, re-keyed by init */
            tinyjambu_hmac_reinit(&st, key, keylen);
            tinyjambu_hmac_update(&st, in, mlen / 2);
            tinyjambu_hmac_init(&st, key2, k2l);
            tinyjambu_hmac_update(&st, in, mlen);
            tinyjambu_hmac_finalize(&st, key2, k2l, d2);
            if (memcmp(d2, e2, 32)) digest_mismatch("hmac-rekey-mismatch:init-on-used-state", "HMAC after init on a used state differs from the model", e2, d2);
            /* the key rotated IN PLACE: same buffer, same length, new bytes, then reinit (a state may not remember a key by
             * where it was) - and the same with the buffer's old bytes restored */
            { uint8_t e3[32], saved[256]; int rot;
              memcpy(saved, key2, sizeof saved);
              for (rot = 0; rot < 2; ++rot) {
                  if (rot == 0) fill_random(&r, key2, sizeof key2); else memcpy(key2, saved, sizeof key2);
                  tinyjambu_hmac_reinit(&st, key2, k2l);
                  tinyjambu_hmac_update(&st, in, mlen);
                  tinyjambu_hmac_finalize(&st, key2, k2l, d2);
                  m_hmac(e3, key2, k2l, in, mlen); ++n_reinit; ++n_model; ++n_rotated;
                  if (memcmp(d2, e3, 32)) digest_mismatch("hmac-rekey-mismatch:key-rotated-in-place", "HMAC after reinit with new key bytes in the same buffer differs from the model", e3, d2);
              } }
        }
        tinyjambu_hmac_free(&st);
    }
done:
    gb_writable(&gKEY); gb_writable(&gIN);
}

int main(int argc, char **argv)
{
    args_t a = parse_args(argc, argv);
    long idx = 0, i, j;
    install_crash_handlers();
    gb_init(&gIN, "in", 1 << 16); gb_init(&gOUT, "out", 256); gb_init(&gKEY, "key", 8192);
    if (!strcmp(a.mode, "hash")) {
        long N = a.p1 > 0 ? a.p1 : 200, reps = a.p2 > 0 ? a.p2 : 1;
        for (i = 0; i <= N; ++i)
            for (j = 0; j < BC_N * reps; ++j, ++idx)
                if (mine(&a, idx)) hash_case(&a, idx, (size_t)i, (int)(j % BC_N), 0);
        for (i = 0; i < 8 * 3; ++i, ++idx) {       /* 2^k-1, 2^k, 2^k+1 for k = 9..16 */
            size_t len = ((size_t)1 << (9 + i / 3)) + (size_t)(i % 3) - 1;
            if (mine(&a, idx)) hash_case(&a, idx, len, (int)(i % BC_N), 1);
        }
        for (i = 0; i < a.p3; ++i, ++idx) {
            rng_t r = rng_for(a.seed, 0x10E6, (uint64_t)i);
            size_t len = (size_t)N + 1 + rnd(&r, i % 4 == 0 ? 65536 : 3000);
            if (a.thorough && i == 0) len = ((size_t)4 << 20) + 5;
            if (i == 1) len = ((size_t)1 << 20) + 21;       /* 65536 full blocks + tail in ONE update: 16-bit block counters wrap here */
            if (i == 2) len = ((size_t)1 << 20);
            if (mine(&a, idx)) hash_case(&a, idx, len, (int)(i % BC_N), 1);
        }
    } else if (!strcmp(a.mode, "stream")) {
        stream_compositions(&a, &idx, a.p1 > 0 ? (int)a.p1 : 12, a.p2 > 0 ? (int)a.p2 : 8);
        for (i = 0; i < 2; ++i, ++idx) if (mine(&a, idx)) stream_megabyte(&a, idx);
        for (i = 0; i < a.p3; ++i, ++idx) if (mine(&a, idx)) stream_random_chunks(&a, idx);
        for (i = 0; i < a.p3; ++i, ++idx) if (mine(&a, idx)) stream_history(&a, idx);
    } else if (!strcmp(a.mode, "hmac")) {
        static const unsigned ml[] = {0, 1, 15, 16, 17, 31, 32, 33, 63, 64, 65, 127, 128, 200};
        long K = a.p1 > 0 ? a.p1 : 200;
        for (i = 0; i <= K; ++i)
            for (j = 0; j < (long)(sizeof ml / sizeof ml[0]); ++j, ++idx)
                if (mine(&a, idx)) hmac_case(&a, idx, (size_t)i, ml[j]);
        { static const unsigned SP[] = {255, 256, 257, 511, 512, 513, 1023, 1024, 1025, 4095, 4096, 4097, 16384, 65535, 65536, 65537};
          for (i = 0; i < 16; ++i, ++idx) if (mine(&a, idx)) hmac_case(&a, idx, (size_t)(i * 13 % 130), SP[i]);          /* special message lengths */
          for (i = 0; i < 9; ++i, ++idx) if (mine(&a, idx)) hmac_case(&a, idx, SP[i], (size_t)(i * 7 % 70)); }          /* special key lengths (hashed keys) */
        for (i = 0; i < a.p3; ++i, ++idx) {
            rng_t r = rng_for(a.seed, 0x4AC2, (uint64_t)i);
            size_t kl = rnd(&r, 4) == 0 ? 60 + rnd(&r, 10) : rnd(&r, 300), mlen = rnd(&r, 4096);
            if (mine(&a, idx)) hmac_case(&a, idx, kl, mlen);
        }
    } else if (!strcmp(a.mode, "special")) {
        /* corpus entries whose chaining value / digest has a rare word pattern: one-shot, every 2-way split, and the
         * 16 | rest | 1 three-way split, each against the model; p1 = 0 one-shot only (C10), 1 splits too (C11) */
        FILE *f = special_open();
        special_t sp;
        if (!f) { if (a.batch == 0) emit_info("special corpus not available ($VERIF_SPECIAL)"); }
        else {
            while (special_next(f, &sp)) {
                static const size_t TAILS[] = {0, 1, 5, 15, 16, 17, 45};
                uint8_t msg[16 + 64], d[32], e[32];
                size_t base, t, cut;
                int mid = !strcmp(sp.tok[0], "hashmid");
                if (!strcmp(sp.tok[0], "hmacin")) {
                    /* HMAC whose inner digest has a rare word pattern (p1 == 2, C12): one-shot, streamed, and a state
                     * that is re-keyed right after producing it */
                    uint8_t hk[64], hm[64], e2[32], d2[32], k2[20];
                    size_t kl = special_unhex(sp.tok[1], hk, 64), ml = special_unhex(sp.tok[2], hm, 64), q;
                    tinyjambu_hmac_state_t hs;
                    if (a.p1 != 2) continue;
                    if (!mine(&a, idx)) { ++idx; continue; }
                    set_case("{\"h\":\"hash\",\"mode\":\"special-hmac\",\"i\":%ld,\"keylen\":%zu,\"mlen\":%zu,\"pattern\":\"%s\"}", idx, kl, ml, sp.tok[sp.ntok - 1]);
                    ++idx; ++n_eval; ++n_special; ++n_hmac; cls_add(mix64(0x5BF0, (uint64_t)idx)); if (idx % 31 == 0 || a.only >= 0) emit_sample();
                    m_hmac(e2, hk, kl, hm, ml); ++n_model;
                    tinyjambu_hmac(d2, hk, kl, hm, ml);
                    if (memcmp(d2, e2, 32)) digest_mismatch("hmac-spec-mismatch:special-value", "one-shot HMAC of a corpus (key, message) pair differs from RFC 2104 over the model hash", e2, d2);
                    memset(&hs, 0x4E, sizeof hs);
                    tinyjambu_hmac_init(&hs, hk, kl);
                    for (q = 0; q < ml; ++q) tinyjambu_hmac_update(&hs, hm + q, 1);
                    tinyjambu_hmac_finalize(&hs, hk, kl, d2); ++n_hmac_stream;
                    if (memcmp(d2, e2, 32)) digest_mismatch("hmac-stream-mismatch:special-value", "byte-wise HMAC of a corpus pair differs from the model", e2, d2);
                    /* same state object, next message under another key */
                    for (q = 0; q < sizeof k2; ++q) k2[q] = (uint8_t)(0xC0 + q);
                    tinyjambu_hmac_reinit(&hs, k2, sizeof k2); tinyjambu_hmac_update(&hs, hm, ml); tinyjambu_hmac_finalize(&hs, k2, sizeof k2, d2); ++n_reinit;
                    m_hmac(e2, k2, sizeof k2, hm, ml); ++n_model;
                    if (memcmp(d2, e2, 32)) digest_mismatch("hmac-rekey-mismatch:special-value", "HMAC via reinit after a corpus pair differs from the model", e2, d2);
                    /* and a key longer than the block whose hash is the corpus message's inner digest is out of reach; the
                     * long-key path is exercised with the corpus message as key material */
                    { uint8_t lk[80]; for (q = 0; q < sizeof lk; ++q) lk[q] = hm[q % (ml ? ml : 1)] ^ (uint8_t)q;
                      tinyjambu_hmac(d2, lk, sizeof lk, hk, kl); m_hmac(e2, lk, sizeof lk, hk, kl); ++n_model;
                      if (memcmp(d2, e2, 32)) digest_mismatch("hmac-spec-mismatch:special-value", "HMAC with an 80-byte key derived from a corpus message differs from the model", e2, d2); }
                    tinyjambu_hmac_free(&hs);
                    continue;
                }
                if (!mid && strcmp(sp.tok[0], "hashfin")) continue;
                if (a.p1 == 2) continue;
                base = special_unhex(sp.tok[1], msg, 16);
                for (t = 0; t < (mid ? 7u : 1u); ++t, ++idx) {
                    size_t len = base + TAILS[t], k2;
                    rng_t r = rng_for(a.seed, 0x5BEC, (uint64_t)idx);
                    tinyjambu_hash_state_t st;
                    if (!mine(&a, idx)) continue;
                    if (mid && TAILS[t]) { msg[16] = 0x2E; for (k2 = 17; k2 < len; ++k2) msg[k2] = (uint8_t)rnd64(&r); }
                    set_case("{\"h\":\"hash\",\"mode\":\"special\",\"i\":%ld,\"kind\":\"%s\",\"pattern\":\"%s\",\"len\":%zu}", idx, sp.tok[0], sp.tok[sp.ntok - 1], len);
                    ++n_eval; ++n_special; cls_add(mix64(0x5BEC, (uint64_t)idx)); if (idx % 97 == 0 || a.only >= 0) emit_sample();
                    m_hash(e, msg, len); ++n_model;
                    tinyjambu_hash(d, msg, len); ++n_oneshot;
                    if (memcmp(d, e, 32)) digest_mismatch("hash-spec-mismatch:special-value", "one-shot digest of a corpus message (rare internal value) differs from the model", e, d);
                    if (a.p1 < 1) continue;
                    for (cut = 0; cut <= len; ++cut) {
                        memset(&st, 0xD7, sizeof st);
                        tinyjambu_hash_init(&st); tinyjambu_hash_update(&st, msg, cut); tinyjambu_hash_update(&st, msg + cut, len - cut); tinyjambu_hash_finalize(&st, d);
                        ++n_seq; n_updates += 2; ++n_finalize;
                        if (memcmp(d, e, 32)) { digest_mismatch("stream-split-mismatch:special-value", "a two-way split of a corpus message (rare internal value) differs from the model", e, d); break; }
                    }
                    if (len > 17) {
                        tinyjambu_hash_init(&st); tinyjambu_hash_update(&st, msg, 16); tinyjambu_hash_update(&st, msg + 16, len - 17); tinyjambu_hash_update(&st, msg + len - 1, 1); tinyjambu_hash_finalize(&st, d);
                        ++n_seq; n_updates += 3; ++n_finalize;
                        if (memcmp(d, e, 32)) digest_mismatch("stream-split-mismatch:special-value", "the 16 | rest | 1 split of a corpus message differs from the model", e, d);
                    }
                }
            }
            fclose(f);
        }
        emit_stat("special_corpus_cases", n_special);
    } else if (!strcmp(a.mode, "huge")) {
        for (i = 0; i < 4; ++i, ++idx) if (mine(&a, idx) && (a.p1 == i || a.p1 == 9)) huge_case(&a, idx, (int)i);
        emit_stat("bytes_hashed_in_huge_cases", n_huge_bytes);
    } else { fprintf(stderr, "bad mode\n"); return 2; }
    emit_stat("evaluations", n_eval); emit_stat("model_digests", n_model); emit_stat("oneshot_hash_calls", n_oneshot);
    emit_stat("update_sequences", n_seq); emit_stat("update_calls", n_updates); emit_stat("zero_length_updates", n_zero_updates);
    emit_stat("history_ops", n_hist_ops); emit_stat("states_forked_by_copy_and_used", n_forks); emit_stat("finalize_judged", n_finalize); emit_stat("bundled_reference_comparisons", n_ref);
    emit_stat("hmac_oneshot", n_hmac); emit_stat("hmac_streamed", n_hmac_stream); emit_stat("hmac_reinit_histories", n_reinit); emit_stat("hmac_keys_rotated_in_place", n_rotated);
    emit_stat("input_bytes_hashed_by_model", n_bytes);
    finish();
    return 0;
}
