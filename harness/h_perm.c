/*
 * C05 monitor 1: the portable C permutation backend, executed natively, against the bit-serial specification.
 * tinyjambu_permutation_{128,192,256}(state, rounds) take the key PRE-INVERTED in the state struct; the oracle is
 * given the key as the specification uses it and runs 128*rounds single-bit steps.
 * Inputs: every single-bit state x zero key, every single-bit key x zero state, all-ones, random; every round count
 * 1..24 (which includes the counts the library uses: 5, 8, 9, 10, 20).  --p1 = random cases per (key size, rounds).
 */
#include "common.h"
#include "model.h"
#include "backend/tinyjambu-backend.h"

static unsigned long long n_eval, n_structured, n_random, n_key_checks;

static void one(const args_t *a, long idx, int kw, unsigned rounds, const uint32_t s_in[4], const uint8_t *key, const char *family)
{
    /* state struct followed by a canary; the struct's own tail is the key */
    struct { union { tinyjambu_128_state_t a; tinyjambu_192_state_t b; tinyjambu_256_state_t c; } u; uint32_t canary[4]; } box;
    uint32_t exp[4], *kp, *sp;
    int i;
    memset(&box, 0xA5, sizeof box);
    sp = box.u.a.s;
    kp = kw == 4 ? box.u.a.k : kw == 6 ? box.u.b.k : box.u.c.k;
    for (i = 0; i < 4; ++i) sp[i] = s_in[i];
    for (i = 0; i < kw; ++i) kp[i] = ~((uint32_t)key[4 * i] | ((uint32_t)key[4 * i + 1] << 8) | ((uint32_t)key[4 * i + 2] << 16) | ((uint32_t)key[4 * i + 3] << 24));
    for (i = 0; i < 4; ++i) kp[kw + i] = 0xC0FFEE00u + (uint32_t)i;      /* canary right after the struct in use */
    memcpy(exp, s_in, 16);
    m_perm_words(exp, key, (unsigned)kw * 32, rounds * 128);
    set_case("{\"h\":\"perm\",\"i\":%ld,\"key_bits\":%d,\"rounds\":%u,\"family\":\"%s\",\"state\":\"%08x %08x %08x %08x\"}", idx, kw * 32, rounds, family, s_in[0], s_in[1], s_in[2], s_in[3]);
    if (kw == 4) tinyjambu_permutation_128(&box.u.a, rounds);
    else if (kw == 6) tinyjambu_permutation_192(&box.u.b, rounds);
    else tinyjambu_permutation_256(&box.u.c, rounds);
    ++n_eval;
    cls_add(mix64(mix64((uint64_t)kw, rounds), mix64(s_in[0] ^ ((uint64_t)s_in[1] << 32), s_in[2] ^ ((uint64_t)s_in[3] << 32) ^ key[0] ^ ((uint64_t)key[5] << 8))));
    if (idx % 4999 == 0 || a->only >= 0) emit_sample();
    if (memcmp(sp, exp, 16)) {
        char key2[64];
        snprintf(key2, sizeof key2, "c-backend-mismatch:%d", kw * 32);
        emit_viol(key2, "rounds=%u: expected %08x %08x %08x %08x got %08x %08x %08x %08x", rounds, exp[0], exp[1], exp[2], exp[3], sp[0], sp[1], sp[2], sp[3]);
    }
    ++n_key_checks;
    for (i = 0; i < kw; ++i) {
        uint32_t w = ~((uint32_t)key[4 * i] | ((uint32_t)key[4 * i + 1] << 8) | ((uint32_t)key[4 * i + 2] << 16) | ((uint32_t)key[4 * i + 3] << 24));
        if (kp[i] != w) { emit_viol("c-backend-modified-key", "key word %d changed (key_bits=%d rounds=%u)", i, kw * 32, rounds); break; }
    }
    for (i = 0; i < 4; ++i) if (kp[kw + i] != 0xC0FFEE00u + (uint32_t)i) { emit_viol("c-backend-wrote-past-struct", "word %d after the state struct changed", i); break; }
}

int main(int argc, char **argv)
{
    args_t a = parse_args(argc, argv);
    static const int KW[3] = {4, 6, 8};
    long idx = 0, NR = a.p1 > 0 ? a.p1 : 50;
    int ki, b;
    unsigned rounds;
    install_crash_handlers();
    for (ki = 0; ki < 3; ++ki)
        for (rounds = 1; rounds <= 24; ++rounds) {
            int kw = KW[ki];
            uint8_t key[32]; uint32_t s[4];
            long j;
            /* single-bit states x zero key */
            for (b = 0; b < 128; ++b, ++idx) {
                if (!mine(&a, idx)) continue;
                memset(key, 0, 32); memset(s, 0, 16); s[b >> 5] = 1u << (b & 31);
                one(&a, idx, kw, rounds, s, key, "single-bit-state"); ++n_structured;
            }
            /* single-bit keys x zero state */
            for (b = 0; b < kw * 32; ++b, ++idx) {
                if (!mine(&a, idx)) continue;
                memset(key, 0, 32); memset(s, 0, 16); key[b >> 3] = (uint8_t)(1u << (b & 7));
                one(&a, idx, kw, rounds, s, key, "single-bit-key"); ++n_structured;
            }
            if (mine(&a, idx)) { memset(key, 0xFF, 32); memset(s, 0xFF, 16); one(&a, idx, kw, rounds, s, key, "all-ones"); ++n_structured; }
            ++idx;
            if (mine(&a, idx)) { memset(key, 0, 32); memset(s, 0, 16); one(&a, idx, kw, rounds, s, key, "all-zero"); ++n_structured; }
            ++idx;
            for (j = 0; j < NR; ++j, ++idx) {
                rng_t r;
                if (!mine(&a, idx)) continue;
                r = rng_for(a.seed, 0x9E24, (uint64_t)idx);
                fill_random(&r, key, 32); fill_random(&r, (uint8_t *)s, 16);
                one(&a, idx, kw, rounds, s, key, "random"); ++n_random;
            }
        }
    emit_stat("evaluations", n_eval); emit_stat("native_structured_inputs", n_structured); emit_stat("native_random_inputs", n_random); emit_stat("native_key_and_canary_checks", n_key_checks);
    finish();
    return 0;
}
