/*
 * System entropy source under OS faults (property C18).
 *
 * The harness itself defines getrandom / getentropy / syscall / open / read / close, so the statically linked
 * library code calls these scripted versions.  A script is  t1 ... tk end  with ti in {EINTR, EAGAIN}
 * (variant "devurandom" also: short read) and end in {success, EPERM, ENOSYS, EFAULT, EIO, EINVAL}.
 * Termination is decided by counting OS calls, not by time: a library that keeps calling after the script has ended
 * is stopped after a slack of 64 extra calls and reported.
 *
 * --mode <variant name>   (getrandom | getentropy | rawsyscall | devurandom) - which primitive must be observed
 * --p1 K                  all prefixes up to length K are enumerated
 */
#include "common.h"
#include "model.h"
#include "TinyJAMBU.h"
#include <dlfcn.h>
#include <fcntl.h>
#include <dirent.h>
#include <sys/syscall.h>

int tinyjambu_trng_generate(unsigned char *out);

enum { T_EINTR = 1, T_EAGAIN = 2, T_SHORT = 3 };
enum { E_OK = 0, E_EPERM, E_ENOSYS, E_EFAULT, E_EIO, E_EINVAL, E_OPENFAIL, E_N };
static const int ERRNO_OF[E_N] = {0, EPERM, ENOSYS, EFAULT, EIO, EINVAL, ENOENT};
static const char *const END_NAME[E_N] = {"success", "EPERM", "ENOSYS", "EFAULT", "EIO", "EINVAL", "open-fails"};
static int g_end_errno;      /* when non-zero: the permanent error of the running script is this errno value instead of the table's */

static struct {
    int active;
    const unsigned char *pre; long npre; int all_eintr;   /* prefix (or npre copies of EINTR when all_eintr) */
    int end;
    long pos;               /* OS entropy calls made so far */
    long opens, closes, reads;
    int fake_fd;
    uint8_t bytes[32];      /* what the OS "provides" on success */
    long used[4];           /* which primitive was called: getrandom, getentropy, syscall, read (2^32+5 calls in the longest script) */
    sigjmp_buf spin;
    int spinning;
    long long max_sleep_s; long sleeps;      /* longest pause requested between attempts (scripted time) */
} S;

static void os_bytes(uint8_t *p, size_t n) { size_t i; for (i = 0; i < n; ++i) p[i] = S.bytes[i & 31]; }

/* one scripted entropy call; returns 1 success, 0 transient/permanent failure with errno set; *shortread for T_SHORT */
static int script_step(int *shortread)
{
    long i = S.pos++;
    int t;
    *shortread = 0;
    if (i > S.npre + 64) {           /* the script ended long ago: the library is spinning */
        S.spinning = 1;
        siglongjmp(S.spin, 1);
    }
    if (i < S.npre) {
        t = S.all_eintr ? T_EINTR : S.pre[i];
        if (t == T_SHORT) { *shortread = 1; return 1; }
        errno = t == T_EINTR ? EINTR : EAGAIN;
        return 0;
    }
    if (S.end == E_OK) return 1;
    errno = g_end_errno ? g_end_errno : ERRNO_OF[S.end];
    return 0;
}

/* a retry loop may pause between attempts; it may not go to sleep for good.  Scripted time: the request is recorded
 * and returns at once (the verdict is on the requested duration, not on the clock). */
#include <time.h>
static void note_sleep(long long sec) { if (sec > S.max_sleep_s) S.max_sleep_s = sec; ++S.sleeps; }
int nanosleep(const struct timespec *req, struct timespec *rem)
{
    static int (*real)(const struct timespec *, struct timespec *);
    if (!S.active) { if (!real) real = (int (*)(const struct timespec *, struct timespec *))dlsym(RTLD_NEXT, "nanosleep"); return real(req, rem); }
    note_sleep(req ? (long long)req->tv_sec : 0);
    return 0;
}
int clock_nanosleep(clockid_t clk, int flags, const struct timespec *req, struct timespec *rem)
{
    static int (*real)(clockid_t, int, const struct timespec *, struct timespec *);
    if (!S.active) { if (!real) real = (int (*)(clockid_t, int, const struct timespec *, struct timespec *))dlsym(RTLD_NEXT, "clock_nanosleep"); return real(clk, flags, req, rem); }
    note_sleep(req && !flags ? (long long)req->tv_sec : 0);
    return 0;
}
unsigned int sleep(unsigned int sec)
{
    static unsigned int (*real)(unsigned int);
    if (!S.active) { if (!real) real = (unsigned int (*)(unsigned int))dlsym(RTLD_NEXT, "sleep"); return real(sec); }
    note_sleep((long long)sec);
    return 0;
}
int usleep(useconds_t us)
{
    static int (*real)(useconds_t);
    if (!S.active) { if (!real) real = (int (*)(useconds_t))dlsym(RTLD_NEXT, "usleep"); return real(us); }
    note_sleep((long long)(us / 1000000u));
    return 0;
}

ssize_t getrandom(void *buf, size_t len, unsigned int flags)
{
    static ssize_t (*real)(void *, size_t, unsigned int);
    int sr;
    if (!S.active) { if (!real) real = (ssize_t (*)(void *, size_t, unsigned int))dlsym(RTLD_NEXT, "getrandom"); return real(buf, len, flags); }
    S.used[0]++;
    if (!script_step(&sr)) return -1;
    if (sr) { size_t part = len > 10 ? 10 : len / 2; os_bytes((uint8_t *)buf, part); return (ssize_t)part; }
    os_bytes((uint8_t *)buf, len);
    return (ssize_t)len;
}
int getentropy(void *buf, size_t len)
{
    static int (*real)(void *, size_t);
    int sr;
    if (!S.active) { if (!real) real = (int (*)(void *, size_t))dlsym(RTLD_NEXT, "getentropy"); return real(buf, len); }
    S.used[1]++;
    if (!script_step(&sr)) return -1;
    os_bytes((uint8_t *)buf, len);
    return 0;
}
long syscall(long nr, ...)
{
    static long (*real)(long, ...);
    va_list ap;
    long a1, a2, a3, a4, a5, a6;
    va_start(ap, nr);
    a1 = va_arg(ap, long); a2 = va_arg(ap, long); a3 = va_arg(ap, long); a4 = va_arg(ap, long); a5 = va_arg(ap, long); a6 = va_arg(ap, long);
    va_end(ap);
    if (S.active && nr == SYS_getrandom) {
        int sr;
        S.used[2]++;
        if (!script_step(&sr)) return -1;
        if (sr) { size_t part = (size_t)a2 > 10 ? 10 : (size_t)a2 / 2; os_bytes((uint8_t *)a1, part); return (long)part; }
        os_bytes((uint8_t *)a1, (size_t)a2);
        return a2;
    }
    if (!real) real = (long (*)(long, ...))dlsym(RTLD_NEXT, "syscall");
    return real(nr, a1, a2, a3, a4, a5, a6);
}
static int (*real_open)(const char *, int, ...);
static ssize_t (*real_read)(int, void *, size_t);
static int (*real_close)(int);
int open(const char *path, int flags, ...)
{
    mode_t mode = 0;
    if (flags & O_CREAT) { va_list ap; va_start(ap, flags); mode = (mode_t)va_arg(ap, int); va_end(ap); }
    if (!real_open) real_open = (int (*)(const char *, int, ...))dlsym(RTLD_NEXT, "open");
    if (S.active && path && (!strcmp(path, "/dev/urandom") || !strcmp(path, "/dev/random"))) {
        S.opens++;
        if (S.end == E_OPENFAIL) { errno = ENOENT; return -1; }
        S.fake_fd = real_open("/dev/null", O_RDONLY);      /* a real descriptor, so that the census sees a leak */
        return S.fake_fd;
    }
    return real_open(path, flags, mode);
}
ssize_t read(int fd, void *buf, size_t n)
{
    if (!real_read) real_read = (ssize_t (*)(int, void *, size_t))dlsym(RTLD_NEXT, "read");
    if (S.active && fd >= 0 && fd == S.fake_fd) {
        int sr;
        S.used[3]++; S.reads++;
        if (!script_step(&sr)) return -1;
        if (sr) { size_t part = n > 10 ? 10 : n / 2; os_bytes((uint8_t *)buf, part); return (ssize_t)part; }
        os_bytes((uint8_t *)buf, n);
        return (ssize_t)n;
    }
    return real_read(fd, buf, n);
}
int close(int fd)
{
    if (!real_close) real_close = (int (*)(int))dlsym(RTLD_NEXT, "close");
    if (S.active && fd >= 0 && fd == S.fake_fd) { S.closes++; S.fake_fd = -1; }
    return real_close(fd);
}

static int count_fds(void)
{
    DIR *d = opendir("/proc/self/fd");
    int n = 0;
    if (!d) return -1;
    while (readdir(d)) ++n;
    closedir(d);
    return n;
}

static unsigned long long n_errno_sweep, n_sleeps, n_count_differs, n_usable, n_prim_used, n_eval, n_success, n_permanent, n_os_calls, n_prng, n_long, n_fd_census;
static int want_prim = 0;
/* set for scripts that hand a getrandom-style source a short count before a permanent error.  getrandom(2) never does that
 * for 32 bytes, so what a source makes of the short count itself is not judged (the unchanged source takes it as success);
 * judged is only the property's own sentence: a call that reports failure leaves an all-zero seed buffer. */
static int g_short_then_permanent = 0;
static unsigned long long n_short_then_permanent, n_short_reached_error;

static void run_script(const args_t *a, long idx, const unsigned char *pre, long npre, int all_eintr, int end, int via_prng)
{
    rng_t r = rng_for(a->seed, 0x7296, (uint64_t)idx);
    uint8_t buf[32 + 16], junk = (uint8_t)(1 | rnd64(&r));
    int rc = -7, fds0, fds1, i, expect_ok = (end == E_OK);
    long expect_calls = (end == E_OPENFAIL) ? 0 : npre + 1;
    char pfx[64] = "";
    for (i = 0; i < npre && i < 12 && !all_eintr; ++i) pfx[i] = pre[i] == T_EINTR ? 'I' : pre[i] == T_EAGAIN ? 'A' : 'S';
    pfx[i < 12 ? (all_eintr ? 0 : i) : 12] = 0;
    set_case("{\"h\":\"trng\",\"variant\":\"%s\",\"i\":%ld,\"prefix\":\"%s\",\"prefix_len\":%ld,\"all_eintr\":%d,\"end\":\"%s\",\"end_errno\":%d,\"via_prng\":%d}",
             a->mode, idx, pfx, npre, all_eintr, END_NAME[end], end == E_OK ? 0 : g_end_errno ? g_end_errno : ERRNO_OF[end], via_prng);
    ++n_eval;
    cls_add(mix64((uint64_t)idx, (uint64_t)(end * 2 + via_prng)));
    if (idx % 1499 == 0 || a->only >= 0) emit_sample();
    memset(&S, 0, sizeof S);
    S.pre = pre; S.npre = npre; S.all_eintr = all_eintr; S.end = end; S.fake_fd = -1;
    fill_random(&r, S.bytes, 32);
    for (i = 0; i < 32; ++i) S.bytes[i] |= 1;          /* never all zero */
    memset(buf, junk, sizeof buf);
    MSAN_POISON(buf, 32);
    fds0 = count_fds();
    /* whatever an earlier, unrelated call left in errno is not information about this one */
    errno = idx % 4 == 0 ? EINTR : idx % 4 == 1 ? EAGAIN : idx % 4 == 2 ? 0 : EPERM;
    if (via_prng) {
        tinyjambu_prng_state_t st;
        m_drbg_t sh;
        uint8_t out[100], exp[100], seed[32];
        size_t pos;
        if (sigsetjmp(S.spin, 1) == 0) { S.active = 1; rc = tinyjambu_prng_init(&st, (const unsigned char *)"c18", 3); S.active = 0; }
        else { S.active = 0; emit_viol("trng-spins", "entropy source kept calling the OS after the script ended (%ld calls, script length %ld)", S.pos, npre + 1); return; }
        ++n_prng;
        if ((rc != 0) != expect_ok) emit_viol(expect_ok ? "prng-init-reports-unseeded-on-success" : "prng-init-reports-seeded-on-failure",
                                              "tinyjambu_prng_init returned %d, OS call ended with %s", rc, END_NAME[end]);
        /* remains usable, and is the documented function of what the source delivered (zeroed seed on failure) */
        tinyjambu_prng_generate(&st, out, sizeof out);
        if (expect_ok) memcpy(seed, S.bytes, 32); else memset(seed, 0, 32);
        m_drbg_init(&sh, seed, (const uint8_t *)"c18", 3);
        for (pos = 0; pos < sizeof exp; pos += 32) m_drbg_block(&sh, exp + pos, sizeof exp - pos < 32 ? sizeof exp - pos : 32);
        if (memcmp(out, exp, sizeof out)) emit_viol("prng-after-os-fault-mismatch", "PRNG output after the OS call ended with %s is not the Hash_DRBG of the %s seed", END_NAME[end], expect_ok ? "OS-provided" : "zeroed");
        /* "remaining usable": an explicit reseed and more than 1 KiB of output (automatic reseed) after the scripted
         * init; the OS now answers normally (the script is over: the real libc call is used) */
        {
            static uint8_t more[1200];
            int j, nonconst = 0;
            (void)tinyjambu_prng_reseed(&st);
            tinyjambu_prng_generate(&st, more, sizeof more);
            for (j = 1; j < (int)sizeof more; ++j) if (more[j] != more[0]) { nonconst = 1; break; }
            if (!nonconst || !memcmp(more, more + 32, 32)) emit_viol("prng-unusable-after-os-fault", "output after a failed/faulty init is constant or repeating");
            ++n_usable;
        }
        tinyjambu_prng_free(&st);
    } else {
        if (sigsetjmp(S.spin, 1) == 0) { S.active = 1; rc = tinyjambu_trng_generate(buf); S.active = 0; }
        else { S.active = 0; emit_viol("trng-spins", "entropy source kept calling the OS after the script ended (%ld calls, script length %ld)", S.pos, npre + 1); return; }
        if (buf[32] != junk) emit_viol("trng-wrote-past-32", "seed buffer overrun");
        if (g_short_then_permanent) {
            ++n_short_then_permanent;
            if (!rc) {
                ++n_short_reached_error;
                for (i = 0; i < 32; ++i) if (buf[i] != 0) { emit_viol("trng-buffer-not-zeroed", "seed buffer byte %d is %02x after a reported failure (short count, then %s)", i, buf[i], END_NAME[end]); break; }
            }
        } else if (expect_ok) {
            ++n_success;
            if (!rc) emit_viol("trng-gives-up-on-transient", "returned 0 although the OS call succeeded after %ld transient errors", npre);
            else { MSAN_CHECK(buf, 32); if (memcmp(buf, S.bytes, 32)) emit_viol("trng-bytes-differ", "returned bytes are not the 32 bytes the OS provided"); }
        } else {
            ++n_permanent;
            if (rc) emit_viol("trng-success-on-permanent-error", "returned %d although the OS call failed with %s", rc, END_NAME[end]);
            MSAN_CHECK(buf, 32);
            for (i = 0; i < 32; ++i) if (buf[i]) { emit_viol("trng-buffer-not-zeroed", "seed buffer byte %d is %02x after a permanent failure (%s)", i, buf[i], END_NAME[end]); break; }
        }
    }
    n_os_calls += (unsigned long long)S.pos; n_sleeps += (unsigned long long)S.sleeps;
    if (S.max_sleep_s >= 3600) emit_viol("trng-sleeps-unbounded", "between attempts the source asked to sleep for %lld seconds", S.max_sleep_s);
    /* The number of OS calls is recorded, not judged: a conforming source may probe or re-read.  Giving up early shows as a
     * wrong status / buffer above, never returning shows as "trng-spins". */
    if (S.pos != expect_calls) ++n_count_differs;
    fds1 = count_fds();
    ++n_fd_census;
    if (fds0 >= 0 && fds1 != fds0) emit_viol("fd-leak", "open descriptors before %d, after %d", fds0, fds1);
    if (S.opens != S.closes + (end == E_OPENFAIL ? S.opens : 0)) emit_viol("fd-leak", "open() %ld times, close() %ld times", S.opens, S.closes);
    if (S.used[want_prim]) ++n_prim_used;
}

int main(int argc, char **argv)
{
    args_t a = parse_args(argc, argv);
    long K = a.p1 > 0 ? a.p1 : 8, idx = 0, k, m;
    unsigned char pre[32];
    int dev = !strcmp(a.mode, "devurandom"), nalpha = dev ? 3 : 2, e;
    install_crash_handlers();
    want_prim = !strcmp(a.mode, "getrandom") ? 0 : !strcmp(a.mode, "getentropy") ? 1 : !strcmp(a.mode, "rawsyscall") ? 2 : 3;
    for (k = 0; k <= K; ++k) {
        long total = 1;
        if (dev && k > 6) break;                     /* 3-letter alphabet: 3^6 */
        for (m = 0; m < k; ++m) total *= nalpha;
        for (m = 0; m < total; ++m) {
            long v = m; int j;
            for (j = 0; j < k; ++j) { pre[j] = (unsigned char)(1 + v % nalpha); v /= nalpha; }
            for (e = 0; e < (dev ? E_N : E_OPENFAIL); ++e, ++idx) {
                if (!mine(&a, idx)) continue;
                run_script(&a, idx, pre, e == E_OPENFAIL ? 0 : k, 0, e, (int)((idx / 7) % 5 == 0));
            }
        }
    }
    /* every errno value is some system's permanent error: 1..133 except the two transient ones, alone and after one EINTR */
    { int en;
      for (en = 1; en <= 133; ++en) for (k = 0; k < 2; ++k, ++idx) {
          if (en == EINTR || en == EAGAIN || !mine(&a, idx)) continue;
          pre[0] = T_EINTR; g_end_errno = en;
          run_script(&a, idx, pre, k, 0, E_EPERM, (int)((idx / 3) % 7 == 0)); ++n_errno_sweep;
          g_end_errno = 0;
      } }
    /* a short count from a getrandom-style call somewhere before a permanent error (see g_short_then_permanent) */
    if (!dev && want_prim != 1) {
        for (k = 1; k <= 4; ++k) {
            long total = 1;
            for (m = 0; m < k; ++m) total *= 3;
            for (m = 0; m < total; ++m) {
                long v = m; int j, has_short = 0;
                for (j = 0; j < k; ++j) { pre[j] = (unsigned char)(1 + v % 3); v /= 3; if (pre[j] == T_SHORT) has_short = 1; }
                if (!has_short) continue;
                for (e = E_EPERM; e < E_OPENFAIL; ++e, ++idx) {
                    if (!mine(&a, idx)) continue;
                    g_short_then_permanent = 1;
                    run_script(&a, idx, pre, k, 0, e, 0);
                    g_short_then_permanent = 0;
                }
            }
        }
    }
    /* "any finite number": long all-EINTR prefixes */
    { static const long LONGS[] = {1000, 100000, 16777221L, 4294967301L};       /* ..., 2^24+5, 2^32+5 (thorough: counters of any width) */
      int nl = a.thorough ? 4 : 3;
      for (k = 0; k < nl; ++k) for (e = 0; e < 2; ++e, ++idx) if (mine(&a, idx)) { run_script(&a, idx, NULL, LONGS[k], 1, e ? E_EPERM : E_OK, 0); ++n_long; } }
    emit_stat("evaluations", n_eval); emit_stat("scripts_ending_in_success", n_success); emit_stat("scripts_ending_in_permanent_error", n_permanent);
    emit_stat("os_entropy_calls_observed", n_os_calls); emit_stat("scripts_through_prng_init", n_prng); emit_stat("long_prefix_scripts", n_long);
    emit_stat("scripts_where_os_call_count_differs_from_script_length", n_count_differs); emit_stat("fd_census_comparisons", n_fd_census); emit_stat("prng_usability_runs_after_fault", n_usable);
    emit_stat("scripts_that_reached_the_variants_primitive", n_prim_used); emit_stat("scripts_in_the_errno_sweep", n_errno_sweep); emit_stat("pauses_requested_between_attempts", n_sleeps);
    emit_stat("scripts_with_short_count_before_permanent_error", n_short_then_permanent); emit_stat("of_those_reported_as_failure", n_short_reached_error);
    if (n_eval > 10 && n_prim_used == 0 && !g_nviol) {      /* the instrument never saw the call it is supposed to script */
        fprintf(stderr, "build variant %s never called its OS primitive: harness does not reach the code\n", a.mode);
        return 2;
    }
    finish();
    return 0;
}
