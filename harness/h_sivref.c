/* Second opinion for C09: the reference programs bundled in /repo/tools/sivref, compiled as they are,
 * against the reference model.  A disagreement here means "documented reference and documented
 * construction disagree" - it is reported under its own key and never blamed on the library. */
#include "common.h"
#include "model.h"

#define DECL(ks) \
    int sivref_##ks##_encrypt(unsigned char *c, unsigned long long *clen, const unsigned char *m, unsigned long long mlen, \
        const unsigned char *ad, unsigned long long adlen, const unsigned char *nsec, const unsigned char *npub, const unsigned char *k); \
    int sivref_##ks##_decrypt(unsigned char *m, unsigned long long *mlen, unsigned char *nsec, const unsigned char *c, \
        unsigned long long clen, const unsigned char *ad, unsigned long long adlen, const unsigned char *npub, const unsigned char *k);
DECL(128) DECL(192) DECL(256)

int main(int argc, char **argv)
{
    args_t a = parse_args(argc, argv);
    long W = a.p1 > 0 ? a.p1 : 32, R = a.p2 > 0 ? a.p2 : 1, idx = 0, vi, ad, ml, rep;
    unsigned long long n = 0;
    install_crash_handlers();
    for (vi = 0; vi < 3; ++vi)
        for (ad = 0; ad <= W; ++ad)
            for (ml = 0; ml <= W; ++ml)
                for (rep = 0; rep < R; ++rep, ++idx) {
                    uint8_t k[32], np[12], adb[128], m[128], c1[160], c2[160], m2[160];
                    unsigned long long cl = 0, ml2 = 0;
                    int ks = vi == 0 ? 16 : vi == 1 ? 24 : 32, rc;
                    rng_t r;
                    if (!mine(&a, idx)) continue;
                    r = rng_for(a.seed, 0x51F, (uint64_t)idx);
                    set_case("{\"h\":\"sivref\",\"i\":%ld,\"ks\":%d,\"adlen\":%ld,\"mlen\":%ld}", idx, ks, ad, ml);
                    fill_random(&r, k, 32); fill_random(&r, np, 12);
                    fill_class(&r, adb, (size_t)ad, (int)((idx + rep) % BC_N)); fill_class(&r, m, (size_t)ml, (int)((idx + rep) % BC_N));
                    if (vi == 0) sivref_128_encrypt(c1, &cl, m, (unsigned long long)ml, adb, (unsigned long long)ad, NULL, np, k);
                    else if (vi == 1) sivref_192_encrypt(c1, &cl, m, (unsigned long long)ml, adb, (unsigned long long)ad, NULL, np, k);
                    else sivref_256_encrypt(c1, &cl, m, (unsigned long long)ml, adb, (unsigned long long)ad, NULL, np, k);
                    m_siv_encrypt(ks, c2, m, (size_t)ml, adb, (size_t)ad, np, k);
                    ++n;
                    cls_add(mix64((uint64_t)vi, (uint64_t)(ad * 128 + ml)));
                    if (cl != (unsigned long long)ml + 8 || memcmp(c1, c2, (size_t)ml + 8))
                        emit_viol("reference-vs-model:sivref-encrypt", "tools/sivref encrypt-%d.c disagrees with the documented two-pass construction", ks * 8);
                    if (vi == 0) rc = sivref_128_decrypt(m2, &ml2, NULL, c2, (unsigned long long)ml + 8, adb, (unsigned long long)ad, np, k);
                    else if (vi == 1) rc = sivref_192_decrypt(m2, &ml2, NULL, c2, (unsigned long long)ml + 8, adb, (unsigned long long)ad, np, k);
                    else rc = sivref_256_decrypt(m2, &ml2, NULL, c2, (unsigned long long)ml + 8, adb, (unsigned long long)ad, np, k);
                    if (rc != 0 || ml2 != (unsigned long long)ml || memcmp(m2, m, (size_t)ml))
                        emit_viol("reference-vs-model:sivref-decrypt", "tools/sivref decrypt of the model's packet: rc=%d", rc);
                    if (idx % 1500 == 0) emit_sample();
                }
    emit_stat("sivref_comparisons", n);
    finish();
    return 0;
}
