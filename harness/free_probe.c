/*
 * Free-function wipe-survival probe for C20: "after the free function returns every byte of the state object is
 * zero" must also hold when the optimiser sees the free function from its call site (link-time optimisation) and the
 * object's lifetime ends right after the call - the situation in which a wipe written as a plain memset is a dead
 * store.  Linked with -flto together with ALL library sources of the working tree.
 * Each noinline victim builds a state object on its stack through the public API, publishes its address, forces it to
 * memory, calls the free function and returns; main then reads the dead object through a volatile pointer.
 * Output: "<type> nonzero=<n> of <size>"; the control victim wipes with memset and MUST show residue at -O2 -flto.
 */
#include <stdio.h>
#include <string.h>
#include "TinyJAMBU.h"

static volatile unsigned char *volatile g_addr;
static unsigned char g_in[64];

static size_t cb(void *ud, unsigned char *buf, size_t size)
{
    size_t i;
    (void)ud;
    for (i = 0; i < size; ++i) buf[i] = (unsigned char)(0xA1 + 7 * i) | 1;
    return size;
}

#define PUBLISH(obj) do { g_addr = (volatile unsigned char *)&(obj); __asm__ volatile("" : : "r"(&(obj)) : "memory"); } while (0)

__attribute__((noinline)) static void victim_hash(void)
{
    tinyjambu_hash_state_t st;
    tinyjambu_hash_init(&st); tinyjambu_hash_update(&st, g_in, 37);
    PUBLISH(st);
    tinyjambu_hash_free(&st);
}
__attribute__((noinline)) static void victim_hmac(void)
{
    tinyjambu_hmac_state_t st;
    tinyjambu_hmac_init(&st, g_in, 40); tinyjambu_hmac_update(&st, g_in, 21);
    PUBLISH(st);
    tinyjambu_hmac_free(&st);
}
__attribute__((noinline)) static void victim_hkdf(void)
{
    tinyjambu_hkdf_state_t st;
    unsigned char out[40];
    tinyjambu_hkdf_extract(&st, g_in, 32, g_in + 32, 16); tinyjambu_hkdf_expand(&st, g_in, 5, out, sizeof out);
    PUBLISH(st);
    tinyjambu_hkdf_free(&st);
}
__attribute__((noinline)) static void victim_prng(void)
{
    tinyjambu_prng_state_t st;
    unsigned char out[40];
    tinyjambu_prng_init_user(&st, cb, 0, g_in, 9); tinyjambu_prng_generate(&st, out, sizeof out);
    PUBLISH(st);
    tinyjambu_prng_free(&st);
}
__attribute__((noinline)) static void victim_control(void)
{
    tinyjambu_prng_state_t st;
    unsigned char out[40];
    tinyjambu_prng_init_user(&st, cb, 0, g_in, 9); tinyjambu_prng_generate(&st, out, sizeof out);
    PUBLISH(st);
    memset(&st, 0, sizeof st);          /* a removable wipe: the positive control */
}

#define PROBE(name, size) do { \
        unsigned nz = 0, i; volatile unsigned char *p; \
        victim_##name(); \
        p = g_addr; \
        for (i = 0; i < (size); ++i) snap[i] = p[i]; \
        for (i = 0; i < (size); ++i) nz += snap[i] != 0; \
        printf(#name " nonzero=%u of %u\n", nz, (unsigned)(size)); \
    } while (0)

int main(void)
{
    unsigned char snap[128];
    unsigned i;
    for (i = 0; i < sizeof g_in; ++i) g_in[i] = (unsigned char)(0x3B + 5 * i) | 1;
    PROBE(hash, sizeof(tinyjambu_hash_state_t));
    PROBE(hmac, sizeof(tinyjambu_hmac_state_t));
    PROBE(hkdf, sizeof(tinyjambu_hkdf_state_t));
    PROBE(prng, sizeof(tinyjambu_prng_state_t));
    PROBE(control, sizeof(tinyjambu_prng_state_t));
    return 0;
}
