/*
 * Wipe-survival probe for C20 ("the clearing survives compiler optimisation").
 *
 * Built as a UNITY translation unit: the repository's tinyjambu-clean.c is #included next to its caller
 * (CLEAN_SRC, also with -flto), which gives the optimiser full visibility of the primitive - the situation in
 * which a wipe of a dying buffer can be deleted as a dead store.  A noinline victim copies a recognisable secret
 * into a local buffer, publishes the buffer's address, forces it to memory, wipes it and returns; main then reads
 * the bytes at the recorded address of the now dead buffer through a volatile pointer before calling anything else.
 * Only that buffer is inspected (a whole-stack scan is confounded by dynamic-linker register spills).
 *
 * Output: one line per victim:  <name> zero=<n> secret=<n>
 *   real    uses tinyjambu_clean from the working tree
 *   memset / loop   weak wipes in the same position: positive controls that must be seen to FAIL at -O2
 */
#include <string.h>
#include <stdio.h>
#include CLEAN_SRC

static volatile unsigned char *volatile g_addr;
static unsigned char g_secret[64];

#define VICTIM(name, WIPE) \
    __attribute__((noinline)) static void victim_##name(const unsigned char *secret) \
    { \
        unsigned char buf[64]; \
        memcpy(buf, secret, 64); \
        g_addr = buf; \
        __asm__ volatile("" : : "r"(buf) : "memory"); \
        WIPE; \
    }

VICTIM(real, tinyjambu_clean(buf, 64))
VICTIM(memset, memset(buf, 0, 64))
VICTIM(loop, { unsigned i; for (i = 0; i < 64; ++i) buf[i] = 0; })

#define PROBE(name) do { \
        unsigned zero = 0, sec = 0, i; \
        volatile unsigned char *p; \
        victim_##name(g_secret); \
        p = g_addr; \
        for (i = 0; i < 64; ++i) { unsigned char b = p[i]; snap[i] = b; } \
        for (i = 0; i < 64; ++i) { zero += snap[i] == 0; sec += snap[i] == g_secret[i]; } \
        printf(#name " zero=%u secret=%u\n", zero, sec); \
    } while (0)

int main(void)
{
    unsigned char snap[64];
    unsigned i;
    for (i = 0; i < 64; ++i) g_secret[i] = (unsigned char)(0xA1 + i * 3) | 1;
    PROBE(real);
    PROBE(memset);
    PROBE(loop);
    return 0;
}
