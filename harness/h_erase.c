/*
 * State erasure monitor (property C20).
 *   --mode free    random histories on hash / HMAC / HKDF / PRNG state objects, cut at a random point, then the
 *                  free function; every byte of sizeof(public state) is read back (must be zero).  The object abuts a
 *                  guard page (a wipe that runs long faults) or sits between canaries (one that starts early or runs
 *                  long is seen).
 *   --mode clean   tinyjambu_clean for every (offset 0..15, size 0..p1) and a few large sizes inside a junk-filled
 *                  arena: exactly [buf, buf+size) is zero afterwards and every other byte is unchanged.
 */
#include "common.h"
#include "TinyJAMBU.h"

static gbuf_t gST, gAR;
static unsigned long long n_dirty, n_eval, n_free[4], n_state_bytes, n_clean, n_clean_bytes, n_arena_bytes, n_hist_ops;

static size_t ent_cb(void *ud, unsigned char *buf, size_t size)
{
    rng_t *r = (rng_t *)ud;
    size_t i;
    for (i = 0; i < size; ++i) buf[i] = (uint8_t)(rnd64(r) | 1);
    return size;
}

static void free_case(const args_t *a, long idx)
{
    rng_t r = rng_for(a->seed, 0xF2EE, (uint64_t)idx), ent = rng_for(a->seed, 0xF2EF, (uint64_t)idx);
    static const size_t SZ[4] = {sizeof(tinyjambu_hash_state_t), sizeof(tinyjambu_hmac_state_t), sizeof(tinyjambu_hkdf_state_t), sizeof(tinyjambu_prng_state_t)};
    static const char *const NM[4] = {"hash", "hmac", "hkdf", "prng"};
    int type = (int)(idx % 4), place = (idx / 4) % 3 == 0 ? PL_MID : PL_END, nops = (int)rnd(&r, 9), i;
    uint8_t data[300], key[100], out[300], *p;
    size_t sz = SZ[type], nz = 0, first = 0, j;
    char hist[160] = ""; size_t hl = 0;
    /* state objects keep their natural 8-byte alignment (offset 0): misaligning them would be caller misuse */
    p = gb_place(&gST, sz, place, 0, 0, 0xEE);
    if (place == PL_END && ((uintptr_t)p & 7)) { p = gb_place(&gST, sz, PL_MID, 0, 0, 0xEE); place = PL_MID; }
    fill_random(&r, data, sizeof data); fill_random(&r, key, sizeof key);
    for (j = 0; j < sz; ++j) p[j] = (uint8_t)(rnd64(&r) | 1);     /* arbitrary non-zero prior contents */
#define H(...) do { if (hl + 24 < sizeof hist) hl += (size_t)snprintf(hist + hl, sizeof hist - hl, __VA_ARGS__); } while (0)
    switch (type) {
    case 0: {
        tinyjambu_hash_state_t *s = (tinyjambu_hash_state_t *)p;
        if (nops) { tinyjambu_hash_init(s); H("init "); }
        for (i = 1; i < nops; ++i) {
            int k = (int)rnd(&r, 6); size_t n = rnd(&r, 70);
            if (k < 4) { tinyjambu_hash_update(s, data, n); H("u%zu ", n); }
            else if (k == 4) { tinyjambu_hash_finalize(s, out); tinyjambu_hash_reinit(s); H("fin reinit "); }
            else { tinyjambu_hash_reinit(s); H("reinit "); }
        }
        if (GUARD_TRY()) { tinyjambu_hash_free(s); GUARD_END(); } else { emit_viol("free-overruns:hash", "tinyjambu_hash_free faulted at %p", g_fault_addr); return; }
        break; }
    case 1: {
        tinyjambu_hmac_state_t *s = (tinyjambu_hmac_state_t *)p;
        size_t kl = rnd(&r, 100);
        if (nops) { tinyjambu_hmac_init(s, key, kl); H("init(k%zu) ", kl); }
        for (i = 1; i < nops; ++i) {
            int k = (int)rnd(&r, 6); size_t n = rnd(&r, 70);
            if (k < 4) { tinyjambu_hmac_update(s, data, n); H("u%zu ", n); }
            else if (k == 4) { tinyjambu_hmac_finalize(s, key, kl, out); tinyjambu_hmac_reinit(s, key, kl); H("fin reinit "); }
            else { tinyjambu_hmac_reinit(s, key, kl); H("reinit "); }
        }
        if (GUARD_TRY()) { tinyjambu_hmac_free(s); GUARD_END(); } else { emit_viol("free-overruns:hmac", "tinyjambu_hmac_free faulted at %p", g_fault_addr); return; }
        break; }
    case 2: {
        tinyjambu_hkdf_state_t *s = (tinyjambu_hkdf_state_t *)p;
        if (nops) { tinyjambu_hkdf_extract(s, key, rnd(&r, 100), data, rnd(&r, 60)); H("extract "); }
        for (i = 1; i < nops; ++i) { size_t n = rnd(&r, 4) == 0 ? 200 + rnd(&r, 100) : rnd(&r, 70); tinyjambu_hkdf_expand(s, data, rnd(&r, 40), out, n); H("x%zu ", n); }
        if (nops > 6 && rnd(&r, 3) == 0) { int q; for (q = 0; q < 30; ++q) tinyjambu_hkdf_expand(s, data, 3, out, 300); H("exhaust "); }
        if (GUARD_TRY()) { tinyjambu_hkdf_free(s); GUARD_END(); } else { emit_viol("free-overruns:hkdf", "tinyjambu_hkdf_free faulted at %p", g_fault_addr); return; }
        break; }
    default: {
        tinyjambu_prng_state_t *s = (tinyjambu_prng_state_t *)p;
        if (nops) { tinyjambu_prng_init_user(s, ent_cb, &ent, key, rnd(&r, 50)); H("init "); }
        for (i = 1; i < nops; ++i) {
            int k = (int)rnd(&r, 8); size_t n = rnd(&r, 5) == 0 ? 1200 : rnd(&r, 80);
            if (k < 4) { uint8_t big[1300]; tinyjambu_prng_generate(s, big, n); H("g%zu ", n); }
            else if (k < 6) { tinyjambu_prng_feed(s, data, rnd(&r, 60)); H("feed "); }
            else if (k == 6) { tinyjambu_prng_reseed(s); H("reseed "); }
            else { static const size_t LIM[] = {0, 1, 31, 32, 33, 1024, 1u << 20, (1u << 20) + 1, (size_t)-1};      /* the documented extremes as well: a free function may not read "limit 0" (or any field value) as "nothing to wipe" */
                   size_t lim = rnd(&r, 2) ? LIM[rnd(&r, 9)] : rnd(&r, 3000);
                   tinyjambu_prng_set_reseed_limit(s, lim); H("limit%zu ", lim); }
        }
        if (GUARD_TRY()) { tinyjambu_prng_free(s); GUARD_END(); } else { emit_viol("free-overruns:prng", "tinyjambu_prng_free faulted at %p", g_fault_addr); return; }
        break; }
    }
    n_hist_ops += (unsigned long long)nops;
    set_case("{\"h\":\"erase\",\"mode\":\"free\",\"i\":%ld,\"type\":\"%s\",\"size\":%zu,\"place\":%d,\"history\":\"%s\"}", idx, NM[type], sz, place, hist);
    ++n_eval; ++n_free[type]; n_state_bytes += sz;
    cls_add(mix64((uint64_t)type, (uint64_t)idx));
    if (idx % 499 == 0 || a->only >= 0) emit_sample();
    for (j = 0; j < sz; ++j) if (p[j]) { if (!nz) first = j; ++nz; }
    if (nz) {
        char key2[64];
        snprintf(key2, sizeof key2, "state-not-erased:%s", NM[type]);
        emit_viol(key2, "%zu of %zu bytes of the %s state object are non-zero after its free function, first at offset %zu (history: %s)", nz, sz, NM[type], first, hist);
    }
    if (gb_canary_bad(&gST)) {
        char key2[64];
        snprintf(key2, sizeof key2, "free-wrote-outside:%s", NM[type]);
        emit_viol(key2, "the free function modified bytes outside the %zu-byte state object", sz);
    }
}

/* hash states whose chaining value / digest has a rare word pattern (corpus, see model/mine.c), then freed */
static void special_free_case(const args_t *a, long idx, const uint8_t *msg, size_t len, int shape, const char *kind, const char *pat)
{
    size_t sz = sizeof(tinyjambu_hash_state_t), j, nz = 0, first = 0;
    uint8_t *p = gb_place(&gST, sz, PL_MID, 0, 0, 0xEE), out[32];
    tinyjambu_hash_state_t *s = (tinyjambu_hash_state_t *)p;
    static const char *const SH[] = {"update free", "update update(1) free", "update finalize free", "update finalize reinit free"};
    for (j = 0; j < sz; ++j) p[j] = (uint8_t)(0x11 * (1 + (j & 7)));
    set_case("{\"h\":\"erase\",\"mode\":\"free-special\",\"i\":%ld,\"kind\":\"%s\",\"pattern\":\"%s\",\"history\":\"init %s\"}", idx, kind, pat, SH[shape]);
    ++n_eval; ++n_free[0]; n_state_bytes += sz;
    cls_add(mix64(0x5BED, (uint64_t)idx));
    if (idx % 53 == 0 || a->only >= 0) emit_sample();
    tinyjambu_hash_init(s);
    tinyjambu_hash_update(s, msg, len);
    if (shape == 1) tinyjambu_hash_update(s, (const uint8_t *)".", 1);
    if (shape >= 2) tinyjambu_hash_finalize(s, out);
    if (shape == 3) tinyjambu_hash_reinit(s);
    if (GUARD_TRY()) { tinyjambu_hash_free(s); GUARD_END(); } else { emit_viol("free-overruns:hash", "tinyjambu_hash_free faulted at %p", g_fault_addr); return; }
    for (j = 0; j < sz; ++j) if (p[j]) { if (!nz) first = j; ++nz; }
    if (nz) emit_viol("state-not-erased:hash", "%zu of %zu bytes of the hash state are non-zero after tinyjambu_hash_free, first at offset %zu (corpus message with %s, history: init %s)", nz, sz, first, pat, SH[shape]);
}

/* A caller that passes `unsigned size` leaves the upper half of the 64-bit argument register undefined (the x86-64
 * psABI does not require 32-bit arguments to be extended).  This call type puts recognisable garbage there; a
 * library that hands the register on as a size_t without widening it wipes gigabytes. */
typedef void (*clean_dirty_fn)(void *, unsigned long);
static void call_clean(void *p, size_t size, int dirty)
{
    if (dirty) ((clean_dirty_fn)tinyjambu_clean)(p, ((unsigned long)0xA5A5u << 32) | (unsigned long)size);
    else tinyjambu_clean(p, (unsigned)size);
}

static void clean_case(const args_t *a, long idx, unsigned off, size_t size)
{
    rng_t r = rng_for(a->seed, 0xC1EA, (uint64_t)idx);
    size_t total = size + 64 + 32, i, bad_in = 0, bad_out = 0, firstbad = 0;
    uint8_t *ar, *ref;
    int end_place = (idx % 3 == 0), dirty = (int)((idx / 3) & 1);
    set_case("{\"h\":\"erase\",\"mode\":\"clean\",\"i\":%ld,\"offset\":%u,\"size\":%zu,\"end_guard\":%d,\"upper_register_half_dirty\":%d}", idx, off, size, end_place, dirty);
    if (dirty) ++n_dirty;
    ++n_eval; ++n_clean; n_clean_bytes += size; n_arena_bytes += total;
    cls_add(mix64(off, size));
    if (idx % 997 == 0 || a->only >= 0) emit_sample();
    if (end_place) {
        /* wiped range ends exactly at the guard page: one byte too many faults */
        ar = gb_place(&gAR, total, PL_END, 0, 0, 0);
        for (i = 0; i < total; ++i) ar[i] = (uint8_t)(rnd64(&r) | 1);
        ref = (uint8_t *)malloc(total); memcpy(ref, ar, total);
        if (GUARD_TRY()) { call_clean(size || (idx & 1) ? ar + total - size : NULL, size, dirty); GUARD_END(); }
        else { emit_viol(dirty ? "clean-overruns:size-not-widened" : "clean-overruns", "tinyjambu_clean(size=%zu%s) faulted at %p past the end of the range", size, dirty ? ", upper half of the argument register dirty" : "", g_fault_addr); free(ref); return; }
        for (i = 0; i < total; ++i) {
            int inside = i >= total - size;
            if (inside ? ar[i] != 0 : ar[i] != ref[i]) { if (!bad_in && !bad_out) firstbad = i; if (inside) ++bad_in; else ++bad_out; }
        }
    } else {
        ar = gb_place(&gAR, total, PL_MID, 0, 0, 0);
        for (i = 0; i < total; ++i) ar[i] = (uint8_t)(rnd64(&r) | 1);
        ref = (uint8_t *)malloc(total); memcpy(ref, ar, total);
        if (GUARD_TRY()) { call_clean(ar + 32 + off, size, dirty); GUARD_END(); }
        else { emit_viol(dirty ? "clean-overruns:size-not-widened" : "clean-overruns", "tinyjambu_clean(size=%zu%s) faulted at %p", size, dirty ? ", upper half of the argument register dirty" : "", g_fault_addr); free(ref); return; }
        for (i = 0; i < total; ++i) {
            int inside = i >= 32 + off && i < 32 + off + size;
            if (inside ? ar[i] != 0 : ar[i] != ref[i]) { if (!bad_in && !bad_out) firstbad = i; if (inside) ++bad_in; else ++bad_out; }
        }
    }
    if (bad_in) emit_viol("clean-leaves-bytes", "offset %u size %zu: %zu bytes inside the range are not zero (first at arena index %zu)", off, size, bad_in, firstbad);
    if (bad_out) emit_viol("clean-wipes-outside", "offset %u size %zu: %zu bytes outside the range were modified (first at arena index %zu)", off, size, bad_out, firstbad);
    free(ref);
}

static void clean_huge(const args_t *a, long idx, unsigned size)
{
    size_t total = (size_t)size + 2 * 4096, i, bad = 0;
    uint8_t *m = (uint8_t *)mmap(NULL, total, PROT_READ | PROT_WRITE, MAP_PRIVATE | MAP_ANONYMOUS | MAP_NORESERVE, -1, 0), *p;
    const uint64_t *w;
    if (m == MAP_FAILED) { perror("mmap"); exit(2); }
    set_case("{\"h\":\"erase\",\"mode\":\"clean-huge\",\"i\":%ld,\"offset\":3,\"size\":%u}", idx, size);
    ++n_eval; ++n_clean; n_clean_bytes += size;
    cls_add(mix64(0xC1EB, size));
    emit_sample();
    memset(m, 0x5A, total);
    p = m + 4096 + 3;
    tinyjambu_clean(p, size);
    for (i = 0; i < 4096 + 3; ++i) if (m[i] != 0x5A) ++bad;
    for (i = (size_t)size + 4096 + 3; i < total; ++i) if (m[i] != 0x5A) ++bad;
    if (bad) emit_viol("clean-wipes-outside", "size %u: %zu bytes outside the range were modified", size, bad);
    bad = 0;
    for (i = 0; i < 5 && i < size; ++i) if (p[i]) ++bad;                       /* unaligned head */
    w = (const uint64_t *)(p + 5);
    for (i = 0; i + 8 <= (size_t)size - 5; i += 8) if (w[i / 8]) { ++bad; break; }
    for (i = ((size_t)size - 5) & ~(size_t)7; i < (size_t)size - 5; ++i) if (p[5 + i]) ++bad;
    if (bad) emit_viol("clean-leaves-bytes:top-bit-sizes", "size %u (top bit of the unsigned parameter set): the range is not zero", size);
    n_arena_bytes += total;
    munmap(m, total);
}

int main(int argc, char **argv)
{
    args_t a = parse_args(argc, argv);
    long idx = 0, i;
    install_crash_handlers();
    gb_init(&gST, "state", 4096); gb_init(&gAR, "arena", 1 << 16);
    if (!strcmp(a.mode, "free")) {
        for (i = 0; i < a.p1; ++i, ++idx) if (mine(&a, idx)) free_case(&a, idx);
        {   /* corpus: hash states holding a rare chaining value / digest, then freed */
            FILE *f = special_open();
            special_t sp;
            if (!f) { if (a.batch == 0) emit_info("special corpus not available ($VERIF_SPECIAL)"); }
            else {
                while (special_next(f, &sp)) {
                    uint8_t msg[32];
                    size_t len;
                    int sh;
                    if (strcmp(sp.tok[0], "hashmid") && strcmp(sp.tok[0], "hashfin")) continue;
                    len = special_unhex(sp.tok[1], msg, sizeof msg);
                    for (sh = 0; sh < 4; ++sh, ++idx) if (mine(&a, idx)) special_free_case(&a, idx, msg, len, sh, sp.tok[0], sp.tok[sp.ntok - 1]);
                }
                fclose(f);
            }
        }
    } else if (!strcmp(a.mode, "clean")) {
        static const size_t BIG[] = {4096, 65535, 65536, (1u << 20) + 3, 4095, 4097};
        long N = a.p1 > 0 ? a.p1 : 300, off, sz;
        for (off = 0; off < 16; ++off)
            for (sz = 0; sz <= N; ++sz, ++idx)
                if (mine(&a, idx)) clean_case(&a, idx, (unsigned)off, (size_t)sz);
        for (i = 0; i < 6 * 4; ++i, ++idx) if (mine(&a, idx)) clean_case(&a, idx, (unsigned)(i * 5 % 16), BIG[i % 6]);
        /* sizes whose top bit is set (the parameter is `unsigned`): 2^31 + 5 always, 2^32 - 1 in the thorough tier */
        for (i = 0; i < (a.thorough ? 2 : 1); ++i, ++idx) if (mine(&a, idx) && a.p2 == 1) clean_huge(&a, idx, i ? 0xFFFFFFFFu : 0x80000005u);
    } else { fprintf(stderr, "bad mode\n"); return 2; }
    emit_stat("evaluations", n_eval); emit_stat("hash_free_readbacks", n_free[0]); emit_stat("hmac_free_readbacks", n_free[1]);
    emit_stat("hkdf_free_readbacks", n_free[2]); emit_stat("prng_free_readbacks", n_free[3]); emit_stat("state_bytes_read_back", n_state_bytes);
    emit_stat("history_ops_before_free", n_hist_ops); emit_stat("clean_calls", n_clean); emit_stat("clean_bytes_requested", n_clean_bytes);
    emit_stat("arena_bytes_compared", n_arena_bytes); emit_stat("clean_calls_with_dirty_upper_register_half", n_dirty);
    finish();
    return 0;
}
