/* Oracle server for the interpreters: reads "keybits rounds s0 s1 s2 s3 keyhex" lines, prints the four state words
 * after 128*rounds steps of the bit-serial NLFSR (key as the specification uses it, not inverted). */
#include "model.h"
#include <stdio.h>
#include <string.h>
int main(void)
{
    char hex[80];
    unsigned kb, rounds;
    uint32_t s[4];
    while (scanf("%u %u %x %x %x %x %79s", &kb, &rounds, &s[0], &s[1], &s[2], &s[3], hex) == 7) {
        uint8_t key[32];
        unsigned i, v;
        memset(key, 0, sizeof key);
        for (i = 0; i < kb / 8 && hex[2 * i] && hex[2 * i + 1]; ++i) { sscanf(hex + 2 * i, "%2x", &v); key[i] = (uint8_t)v; }
        m_perm_words(s, key, kb, rounds * 128);
        printf("%08x %08x %08x %08x\n", s[0], s[1], s[2], s[3]);
    }
    return 0;
}
