/*
 * Reference model for the TinyJAMBU verification harnesses.
 *
 * Written from the specification texts only (TinyJAMBU v2 submission document,
 * tools/sivref/README.md, tools/hashref/README.md, RFC 2104, RFC 5869, RFC 8018,
 * SP 800-90A 10.1.1 as described in the library documentation).  It shares no
 * code and no implementation trick with /repo: the permutation is the bit-serial
 * NLFSR on a 128-bit register with the key used as given.
 */
#ifndef VERIF_MODEL_H
#define VERIF_MODEL_H

#include <stddef.h>
#include <stdint.h>

#ifdef __cplusplus
extern "C" {
#endif

/* 128-bit NLFSR state: bit i of the spec is bit (i & 63) of w[i >> 6]. */
typedef struct { uint64_t w[2]; } m_state_t;

/* nsteps steps of the keyed NLFSR; the key bit index restarts at 0. */
void m_perm(m_state_t *s, const uint8_t *key, unsigned klen_bits, unsigned nsteps);

/* Word-oriented convenience for permutation tests: s[4] little-endian words. */
void m_perm_words(uint32_t s[4], const uint8_t *key, unsigned klen_bits, unsigned nsteps);

/* AEAD.  ks = key size in bytes (16, 24, 32).  c receives mlen + 8 bytes. */
void m_aead_encrypt(int ks, uint8_t *c, const uint8_t *m, size_t mlen,
                    const uint8_t *ad, size_t adlen, const uint8_t *npub, const uint8_t *k);
/* Decrypts body (blen bytes) into m, writes the one acceptable tag into tag[8]. */
void m_aead_open(int ks, uint8_t *m, uint8_t tag[8], const uint8_t *body, size_t blen,
                 const uint8_t *ad, size_t adlen, const uint8_t *npub, const uint8_t *k);

/* SIV. */
void m_siv_encrypt(int ks, uint8_t *c, const uint8_t *m, size_t mlen,
                   const uint8_t *ad, size_t adlen, const uint8_t *npub, const uint8_t *k);
/* Strips the keystream selected by (k, npub[0..3], rtag) from body, then computes the
 * tag that encryption would derive for the recovered plaintext into tag[8]. */
void m_siv_open(int ks, uint8_t *m, uint8_t tag[8], const uint8_t *body, size_t blen,
                const uint8_t rtag[8], const uint8_t *ad, size_t adlen,
                const uint8_t *npub, const uint8_t *k);
/* MAC only (pass 1). */
void m_siv_tag(int ks, uint8_t tag[8], const uint8_t *m, size_t mlen,
               const uint8_t *ad, size_t adlen, const uint8_t *npub, const uint8_t *k);

/* Streaming forms of the above for multi-GiB messages (every chunk but the last a multiple of 4 bytes):
 *   AEAD:  begin(fb 0x10, ad) ; aead_encrypt(chunk)* ; tag
 *   SIV :  begin(fb 0x90, ad) ; absorb_msg(chunk)* ; tag     then   begin(fb 0xB0, npub[0..3]||tag, ad = NULL/nonzero adlen
 *          is not used: pass ad = NULL, adlen = 1 to skip AD) ; keystream_xor(chunk)* */
typedef struct { m_state_t s; int ks; const uint8_t *k; } m_stream_t;
void m_stream_begin(m_stream_t *st, int ks, const uint8_t *k, const uint8_t *npub, unsigned setup_fb, const uint8_t *ad, size_t adlen);
void m_stream_aead_encrypt(m_stream_t *st, uint8_t *c, const uint8_t *m, size_t n);
void m_stream_absorb_msg(m_stream_t *st, const uint8_t *m, size_t n);
void m_stream_keystream_xor(m_stream_t *st, uint8_t *out, const uint8_t *in, size_t n);
void m_stream_tag(m_stream_t *st, uint8_t tag[8]);
/* Switches m_perm to a 32-steps-per-iteration form after comparing it with the literal bit-serial form on 600 random
 * (state, key, step count) triples; returns -1 (and stays literal) if they ever differ.  Only the multi-GiB cases use it. */
int m_use_fast_perm(int on);

/* Hash (MDPH over TinyJAMBU-256, 2560 steps). */
typedef struct { uint8_t L[16], R[16], buf[16]; unsigned n; } m_hash_t;
void m_hash_init(m_hash_t *h);
void m_hash_update(m_hash_t *h, const uint8_t *in, size_t len);
void m_hash_final(m_hash_t *h, uint8_t out[32]);
void m_hash(uint8_t out[32], const uint8_t *in, size_t len);

/* RFC 2104 with 64-byte block. */
void m_hmac(uint8_t out[32], const uint8_t *key, size_t keylen, const uint8_t *in, size_t inlen);
/* HMAC over the concatenation of up to three parts. */
void m_hmac3(uint8_t out[32], const uint8_t *key, size_t keylen,
             const uint8_t *a, size_t alen, const uint8_t *b, size_t blen,
             const uint8_t *c, size_t clen);

/* RFC 5869; outlen must be <= 8160. */
void m_hkdf(uint8_t *out, size_t outlen, const uint8_t *key, size_t keylen,
            const uint8_t *salt, size_t saltlen, const uint8_t *info, size_t infolen);

/* RFC 8018 PBKDF2 (count 0 treated as 1 as the library documents). */
void m_pbkdf2(uint8_t *out, size_t outlen, const uint8_t *pw, size_t pwlen,
              const uint8_t *salt, size_t saltlen, unsigned long count);

/* Hash_DRBG shadow (variant: V advanced after every 32-byte block). */
typedef struct {
    uint8_t V[32], C[32];
    uint64_t counter;       /* reseed counter (blocks since reseed, starts at 1) */
    uint64_t limit_blocks;  /* reseed when counter > limit_blocks */
} m_drbg_t;
/* seedbuf = the 32-byte seed buffer as it stands after the entropy source wrote to it. */
void m_drbg_init(m_drbg_t *d, const uint8_t seedbuf[32], const uint8_t *custom, size_t custom_len);
void m_drbg_reseed(m_drbg_t *d, const uint8_t seedbuf[32]);
void m_drbg_feed(m_drbg_t *d, const uint8_t *data, size_t len);
void m_drbg_set_limit(m_drbg_t *d, size_t limit);
int  m_drbg_needs_reseed(const m_drbg_t *d);
/* One block: out gets len (<= 32) bytes; state advances.  Caller handles reseeds. */
void m_drbg_block(m_drbg_t *d, uint8_t *out, size_t len);

#ifdef __cplusplus
}
#endif
#endif
