/* Reference model: see model.h.  Deliberately slow and literal. */
#include "model.h"
#include <string.h>
#include <stdlib.h>

/* ------------------------------------------------------------------ NLFSR */

static inline unsigned sbit(const m_state_t *s, unsigned i)
{
    return (unsigned)((s->w[i >> 6] >> (i & 63)) & 1u);
}

/* 32 steps at a time: valid because the highest tap (91) plus 31 stays below 128, so none of the 32 new bits is an
 * input of the same batch.  NOT used unless m_use_fast_perm(1) was called, which first compares it with the literal
 * bit-serial version on random states, keys and step counts; meant for the multi-GiB cases only. */
static int g_fast_perm;
static void m_perm_fast(m_state_t *s, const uint8_t *key, unsigned klen_bits, unsigned nsteps)
{
    unsigned i, kw = 0, nkw = klen_bits / 32;
    uint64_t lo = s->w[0], hi = s->w[1];
    for (i = 0; i < nsteps; i += 32) {
        uint32_t k = (uint32_t)key[4 * kw] | ((uint32_t)key[4 * kw + 1] << 8) | ((uint32_t)key[4 * kw + 2] << 16) | ((uint32_t)key[4 * kw + 3] << 24);
        uint32_t t47 = (uint32_t)((lo >> 47) | (hi << 17)), t70 = (uint32_t)(hi >> 6), t85 = (uint32_t)(hi >> 21), t91 = (uint32_t)(hi >> 27);
        uint32_t fb = (uint32_t)lo ^ t47 ^ ~(t70 & t85) ^ t91 ^ k;
        lo = (lo >> 32) | (hi << 32);
        hi = (hi >> 32) | ((uint64_t)fb << 32);
        if (++kw == nkw) kw = 0;
    }
    s->w[0] = lo; s->w[1] = hi;
}

static void m_perm_slow(m_state_t *s, const uint8_t *key, unsigned klen_bits, unsigned nsteps);

void m_perm(m_state_t *s, const uint8_t *key, unsigned klen_bits, unsigned nsteps)
{
    if (g_fast_perm && nsteps % 32 == 0 && klen_bits % 32 == 0) m_perm_fast(s, key, klen_bits, nsteps);
    else m_perm_slow(s, key, klen_bits, nsteps);
}

int m_use_fast_perm(int on)
{
    if (on) {
        /* pin the batch version to the literal one before anything relies on it */
        uint64_t x = 0x243F6A8885A308D3ULL;
        int t, j;
        for (t = 0; t < 600; ++t) {
            static const unsigned KL[3] = {128, 192, 256}, NS[6] = {32, 64, 640, 1024, 1152, 1280};
            m_state_t a, b;
            uint8_t key[32];
            for (j = 0; j < 32; ++j) { x ^= x << 13; x ^= x >> 7; x ^= x << 17; key[j] = (uint8_t)(x >> 24); }
            x ^= x << 13; x ^= x >> 7; x ^= x << 17; a.w[0] = b.w[0] = t == 0 ? 0 : t == 1 ? ~0ULL : x;
            x ^= x << 13; x ^= x >> 7; x ^= x << 17; a.w[1] = b.w[1] = t == 0 ? 0 : t == 1 ? ~0ULL : x;
            m_perm_slow(&a, key, KL[t % 3], NS[t % 6]);
            m_perm_fast(&b, key, KL[t % 3], NS[t % 6]);
            if (a.w[0] != b.w[0] || a.w[1] != b.w[1]) return -1;
        }
    }
    g_fast_perm = on;
    return 0;
}

static void m_perm_slow(m_state_t *s, const uint8_t *key, unsigned klen_bits, unsigned nsteps)
{
    unsigned i, ki = 0;
    for (i = 0; i < nsteps; ++i) {
        unsigned kb = (key[ki >> 3] >> (ki & 7)) & 1u;
        unsigned fb = sbit(s, 0) ^ sbit(s, 47) ^ (1u ^ (sbit(s, 70) & sbit(s, 85)))
                      ^ sbit(s, 91) ^ kb;
        s->w[0] = (s->w[0] >> 1) | (s->w[1] << 63);
        s->w[1] = (s->w[1] >> 1) | ((uint64_t)fb << 63);
        if (++ki == klen_bits)
            ki = 0;
    }
}

void m_perm_words(uint32_t w[4], const uint8_t *key, unsigned klen_bits, unsigned nsteps)
{
    m_state_t s;
    s.w[0] = (uint64_t)w[0] | ((uint64_t)w[1] << 32);
    s.w[1] = (uint64_t)w[2] | ((uint64_t)w[3] << 32);
    m_perm(&s, key, klen_bits, nsteps);
    w[0] = (uint32_t)s.w[0];
    w[1] = (uint32_t)(s.w[0] >> 32);
    w[2] = (uint32_t)s.w[1];
    w[3] = (uint32_t)(s.w[1] >> 32);
}

/* XOR v into state bits [first, first + 32) (first is 32, 64 or 96 here). */
static void sxor32(m_state_t *s, unsigned first, uint32_t v)
{
    s->w[first >> 6] ^= (uint64_t)v << (first & 63);
}

static uint32_t sget32(const m_state_t *s, unsigned first)
{
    return (uint32_t)(s->w[first >> 6] >> (first & 63));
}

static uint32_t le_bytes(const uint8_t *p, size_t n)
{
    uint32_t v = 0;
    size_t i;
    for (i = 0; i < n; ++i)
        v |= (uint32_t)p[i] << (8 * i);
    return v;
}

/* ------------------------------------------------------------------ AEAD */

static unsigned pk_steps(int ks) { return ks == 16 ? 1024 : ks == 24 ? 1152 : 1280; }

/* Key setup and nonce absorption.  fb = frame byte XORed at bit 32 (the 3-bit
 * FrameBits of the spec sit at bits 36..38; SIV domains also set bit 39). */
static void a_setup(m_state_t *s, int ks, const uint8_t *k, const uint8_t *npub, unsigned fb)
{
    int i;
    s->w[0] = s->w[1] = 0;
    m_perm(s, k, ks * 8, pk_steps(ks));
    for (i = 0; i < 3; ++i) {
        sxor32(s, 32, fb);
        m_perm(s, k, ks * 8, 640);
        sxor32(s, 96, le_bytes(npub + 4 * i, 4));
    }
}

/* Absorb data without producing output (AD: fb 0x30 / 640 steps; SIV pass-1
 * message: fb 0x50 / P_K steps). */
static void a_absorb(m_state_t *s, int ks, const uint8_t *k, const uint8_t *d, size_t n,
                     unsigned fb, unsigned steps)
{
    while (n >= 4) {
        sxor32(s, 32, fb);
        m_perm(s, k, ks * 8, steps);
        sxor32(s, 96, le_bytes(d, 4));
        d += 4;
        n -= 4;
    }
    if (n) {
        sxor32(s, 32, fb);
        m_perm(s, k, ks * 8, steps);
        sxor32(s, 96, le_bytes(d, n));
        sxor32(s, 32, (uint32_t)n);
    }
}

static void a_tag(m_state_t *s, int ks, const uint8_t *k, uint8_t tag[8])
{
    uint32_t t;
    sxor32(s, 32, 0x70);
    m_perm(s, k, ks * 8, pk_steps(ks));
    t = sget32(s, 64);
    tag[0] = (uint8_t)t; tag[1] = (uint8_t)(t >> 8); tag[2] = (uint8_t)(t >> 16); tag[3] = (uint8_t)(t >> 24);
    sxor32(s, 32, 0x70);
    m_perm(s, k, ks * 8, 640);
    t = sget32(s, 64);
    tag[4] = (uint8_t)t; tag[5] = (uint8_t)(t >> 8); tag[6] = (uint8_t)(t >> 16); tag[7] = (uint8_t)(t >> 24);
}

void m_aead_encrypt(int ks, uint8_t *c, const uint8_t *m, size_t mlen,
                    const uint8_t *ad, size_t adlen, const uint8_t *npub, const uint8_t *k)
{
    m_state_t s;
    size_t i = 0, j;
    a_setup(&s, ks, k, npub, 0x10);
    a_absorb(&s, ks, k, ad, adlen, 0x30, 640);
    while (i < mlen) {
        size_t n = mlen - i >= 4 ? 4 : mlen - i;
        uint32_t p = le_bytes(m + i, n), ksw;
        sxor32(&s, 32, 0x50);
        m_perm(&s, k, ks * 8, pk_steps(ks));
        sxor32(&s, 96, p);
        ksw = sget32(&s, 64);
        for (j = 0; j < n; ++j)
            c[i + j] = (uint8_t)((p ^ ksw) >> (8 * j));
        if (n < 4)
            sxor32(&s, 32, (uint32_t)n);
        i += n;
    }
    a_tag(&s, ks, k, c + mlen);
}

void m_aead_open(int ks, uint8_t *m, uint8_t tag[8], const uint8_t *body, size_t blen,
                 const uint8_t *ad, size_t adlen, const uint8_t *npub, const uint8_t *k)
{
    m_state_t s;
    size_t i = 0, j;
    a_setup(&s, ks, k, npub, 0x10);
    a_absorb(&s, ks, k, ad, adlen, 0x30, 640);
    while (i < blen) {
        size_t n = blen - i >= 4 ? 4 : blen - i;
        uint32_t cw = le_bytes(body + i, n), p;
        sxor32(&s, 32, 0x50);
        m_perm(&s, k, ks * 8, pk_steps(ks));
        p = cw ^ sget32(&s, 64);
        if (n < 4)
            p &= (1u << (8 * n)) - 1u;
        sxor32(&s, 96, p);
        for (j = 0; j < n; ++j)
            m[i + j] = (uint8_t)(p >> (8 * j));
        if (n < 4)
            sxor32(&s, 32, (uint32_t)n);
        i += n;
    }
    a_tag(&s, ks, k, tag);
}

/* ------------------------------------------------------------------ SIV */

void m_siv_tag(int ks, uint8_t tag[8], const uint8_t *m, size_t mlen,
               const uint8_t *ad, size_t adlen, const uint8_t *npub, const uint8_t *k)
{
    m_state_t s;
    a_setup(&s, ks, k, npub, 0x90);
    a_absorb(&s, ks, k, ad, adlen, 0x30, 640);
    a_absorb(&s, ks, k, m, mlen, 0x50, pk_steps(ks));
    a_tag(&s, ks, k, tag);
}

/* Pass 2: keystream XOR; the text is not absorbed. */
static void siv_stream(int ks, uint8_t *out, const uint8_t *in, size_t n,
                       const uint8_t *npub, const uint8_t tag[8], const uint8_t *k)
{
    m_state_t s;
    uint8_t n2[12];
    size_t i = 0, j;
    memcpy(n2, npub, 4);
    memcpy(n2 + 4, tag, 8);
    a_setup(&s, ks, k, n2, 0xB0);
    while (i < n) {
        size_t l = n - i >= 4 ? 4 : n - i;
        uint32_t ksw;
        sxor32(&s, 32, 0xD0);
        m_perm(&s, k, ks * 8, pk_steps(ks));
        ksw = sget32(&s, 64);
        for (j = 0; j < l; ++j)
            out[i + j] = in[i + j] ^ (uint8_t)(ksw >> (8 * j));
        i += l;
    }
}

void m_siv_encrypt(int ks, uint8_t *c, const uint8_t *m, size_t mlen,
                   const uint8_t *ad, size_t adlen, const uint8_t *npub, const uint8_t *k)
{
    uint8_t tag[8];
    m_siv_tag(ks, tag, m, mlen, ad, adlen, npub, k);
    siv_stream(ks, c, m, mlen, npub, tag, k);
    memcpy(c + mlen, tag, 8);
}

/* ---- streaming forms for messages that do not fit twice into memory: every chunk but the last is a multiple of 4 */
void m_stream_begin(m_stream_t *st, int ks, const uint8_t *k, const uint8_t *npub, unsigned setup_fb,
                    const uint8_t *ad, size_t adlen)
{
    st->ks = ks; st->k = k;
    a_setup(&st->s, ks, k, npub, setup_fb);
    if (ad || adlen == 0) a_absorb(&st->s, ks, k, ad, adlen, 0x30, 640);
}
void m_stream_aead_encrypt(m_stream_t *st, uint8_t *c, const uint8_t *m, size_t n)
{
    size_t i = 0, j;
    while (i < n) {
        size_t l = n - i >= 4 ? 4 : n - i;
        uint32_t p = le_bytes(m + i, l), ksw;
        sxor32(&st->s, 32, 0x50);
        m_perm(&st->s, st->k, st->ks * 8, pk_steps(st->ks));
        sxor32(&st->s, 96, p);
        ksw = sget32(&st->s, 64);
        for (j = 0; j < l; ++j) c[i + j] = (uint8_t)((p ^ ksw) >> (8 * j));
        if (l < 4) sxor32(&st->s, 32, (uint32_t)l);
        i += l;
    }
}
void m_stream_absorb_msg(m_stream_t *st, const uint8_t *m, size_t n) { a_absorb(&st->s, st->ks, st->k, m, n, 0x50, pk_steps(st->ks)); }
void m_stream_keystream_xor(m_stream_t *st, uint8_t *out, const uint8_t *in, size_t n)
{
    size_t i = 0, j;
    while (i < n) {
        size_t l = n - i >= 4 ? 4 : n - i;
        uint32_t ksw;
        sxor32(&st->s, 32, 0xD0);
        m_perm(&st->s, st->k, st->ks * 8, pk_steps(st->ks));
        ksw = sget32(&st->s, 64);
        for (j = 0; j < l; ++j) out[i + j] = in[i + j] ^ (uint8_t)(ksw >> (8 * j));
        i += l;
    }
}
void m_stream_tag(m_stream_t *st, uint8_t tag[8]) { a_tag(&st->s, st->ks, st->k, tag); }

void m_siv_open(int ks, uint8_t *m, uint8_t tag[8], const uint8_t *body, size_t blen,
                const uint8_t rtag[8], const uint8_t *ad, size_t adlen,
                const uint8_t *npub, const uint8_t *k)
{
    siv_stream(ks, m, body, blen, npub, rtag, k);
    m_siv_tag(ks, tag, m, blen, ad, adlen, npub, k);
}

/* ------------------------------------------------------------------ hash */

/* Encrypt(K, P): TinyJAMBU-256 permutation, K = R || M, 2560 steps. */
static void h_encrypt(uint8_t out[16], const uint8_t K[32], const uint8_t P[16])
{
    m_state_t s;
    int i;
    s.w[0] = s.w[1] = 0;
    for (i = 0; i < 16; ++i)
        s.w[i >> 3] |= (uint64_t)P[i] << (8 * (i & 7));
    m_perm(&s, K, 256, 2560);
    for (i = 0; i < 16; ++i)
        out[i] = (uint8_t)(s.w[i >> 3] >> (8 * (i & 7)));
}

static void h_compress(uint8_t L[16], uint8_t R[16], const uint8_t M[16])
{
    uint8_t K[32], L1[16], E[16], Ln[16], Rn[16];
    int i;
    memcpy(K, R, 16);
    memcpy(K + 16, M, 16);
    h_encrypt(E, K, L);
    for (i = 0; i < 16; ++i)
        Ln[i] = E[i] ^ L[i];
    memcpy(L1, L, 16);
    L1[0] ^= 1;
    h_encrypt(E, K, L1);
    for (i = 0; i < 16; ++i)
        Rn[i] = E[i] ^ L1[i];
    memcpy(L, Ln, 16);
    memcpy(R, Rn, 16);
}

void m_hash_init(m_hash_t *h)
{
    memset(h, 0, sizeof(*h));
}

void m_hash_update(m_hash_t *h, const uint8_t *in, size_t len)
{
    size_t i;
    /* A block is compressed only when at least one more byte follows, because
     * the last (padded) block is the one that carries the domain value. */
    for (i = 0; i < len; ++i) {
        if (h->n == 16) {
            h_compress(h->L, h->R, h->buf);
            h->n = 0;
        }
        h->buf[h->n++] = in[i];
    }
}

void m_hash_final(m_hash_t *h, uint8_t out[32])
{
    if (h->n == 16) {
        h_compress(h->L, h->R, h->buf);
        h->n = 0;
    }
    h->buf[h->n++] = 0x01;            /* a single 1 bit, little-endian bit order */
    while (h->n < 16)
        h->buf[h->n++] = 0;
    h->L[0] ^= 2;
    h_compress(h->L, h->R, h->buf);
    memcpy(out, h->L, 16);
    memcpy(out + 16, h->R, 16);
}

void m_hash(uint8_t out[32], const uint8_t *in, size_t len)
{
    m_hash_t h;
    m_hash_init(&h);
    m_hash_update(&h, in, len);
    m_hash_final(&h, out);
}

/* ------------------------------------------------------------------ HMAC */

void m_hmac3(uint8_t out[32], const uint8_t *key, size_t keylen,
             const uint8_t *a, size_t alen, const uint8_t *b, size_t blen,
             const uint8_t *c, size_t clen)
{
    uint8_t k0[64], pad[64], inner[32];
    m_hash_t h;
    int i;
    memset(k0, 0, 64);
    if (keylen > 64)
        m_hash(k0, key, keylen);
    else if (keylen)
        memcpy(k0, key, keylen);
    for (i = 0; i < 64; ++i)
        pad[i] = k0[i] ^ 0x36;
    m_hash_init(&h);
    m_hash_update(&h, pad, 64);
    if (alen) m_hash_update(&h, a, alen);
    if (blen) m_hash_update(&h, b, blen);
    if (clen) m_hash_update(&h, c, clen);
    m_hash_final(&h, inner);
    for (i = 0; i < 64; ++i)
        pad[i] = k0[i] ^ 0x5C;
    m_hash_init(&h);
    m_hash_update(&h, pad, 64);
    m_hash_update(&h, inner, 32);
    m_hash_final(&h, out);
}

void m_hmac(uint8_t out[32], const uint8_t *key, size_t keylen, const uint8_t *in, size_t inlen)
{
    m_hmac3(out, key, keylen, in, inlen, NULL, 0, NULL, 0);
}

/* ------------------------------------------------------------------ HKDF */

void m_hkdf(uint8_t *out, size_t outlen, const uint8_t *key, size_t keylen,
            const uint8_t *salt, size_t saltlen, const uint8_t *info, size_t infolen)
{
    static const uint8_t zsalt[32] = {0};
    uint8_t prk[32], T[32];
    uint8_t ctr = 1;
    size_t done = 0;
    if (saltlen == 0) {          /* RFC 5869: absent salt = HashLen zero bytes */
        salt = zsalt;
        saltlen = 32;
    }
    m_hmac(prk, salt, saltlen, key, keylen);
    while (done < outlen) {
        size_t n = outlen - done > 32 ? 32 : outlen - done;
        m_hmac3(T, prk, 32, T, ctr == 1 ? 0 : 32, info, infolen, &ctr, 1);
        memcpy(out + done, T, n);
        done += n;
        ++ctr;
    }
}

/* ------------------------------------------------------------------ PBKDF2 */

void m_pbkdf2(uint8_t *out, size_t outlen, const uint8_t *pw, size_t pwlen,
              const uint8_t *salt, size_t saltlen, unsigned long count)
{
    uint32_t i = 1;
    size_t done = 0;
    if (count == 0)
        count = 1;
    while (done < outlen) {
        uint8_t be[4], U[32], T[32];
        unsigned long c;
        size_t n = outlen - done > 32 ? 32 : outlen - done;
        int j;
        be[0] = (uint8_t)(i >> 24); be[1] = (uint8_t)(i >> 16);
        be[2] = (uint8_t)(i >> 8);  be[3] = (uint8_t)i;
        m_hmac3(U, pw, pwlen, salt, saltlen, be, 4, NULL, 0);
        memcpy(T, U, 32);
        for (c = 1; c < count; ++c) {
            uint8_t U2[32];
            m_hmac(U2, pw, pwlen, U, 32);
            memcpy(U, U2, 32);
            for (j = 0; j < 32; ++j)
                T[j] ^= U[j];
        }
        memcpy(out + done, T, n);
        done += n;
        ++i;
    }
}

/* ------------------------------------------------------------------ Hash_DRBG */

/* Hash_df for one 256-bit block: Hash(counter=1 || bits=256 (32-bit BE) || input). */
static void drbg_df(uint8_t out[32], int marker /* -1 = none */, const uint8_t V[32],
                    const uint8_t *in, size_t inlen)
{
    m_hash_t h;
    uint8_t hdr[6] = {1, 0, 0, 1, 0, 0};
    m_hash_init(&h);
    if (marker >= 0) {
        hdr[5] = (uint8_t)marker;
        m_hash_update(&h, hdr, 6);
    } else {
        m_hash_update(&h, hdr, 5);
    }
    m_hash_update(&h, V, 32);
    if (inlen)
        m_hash_update(&h, in, inlen);
    m_hash_final(&h, out);
}

void m_drbg_init(m_drbg_t *d, const uint8_t seedbuf[32], const uint8_t *custom, size_t custom_len)
{
    uint8_t v[32];
    /* seed_material = entropy_input || nonce || personalization_string */
    drbg_df(v, -1, seedbuf, custom, custom_len);
    memcpy(d->V, v, 32);
    drbg_df(d->C, 0x00, d->V, NULL, 0);
    d->counter = 1;
    d->limit_blocks = 1024 / 32;
}

void m_drbg_reseed(m_drbg_t *d, const uint8_t seedbuf[32])
{
    uint8_t v[32];
    drbg_df(v, 0x01, d->V, seedbuf, 32);
    memcpy(d->V, v, 32);
    drbg_df(d->C, 0x00, d->V, NULL, 0);
    d->counter = 1;
}

void m_drbg_feed(m_drbg_t *d, const uint8_t *data, size_t len)
{
    uint8_t v[32];
    drbg_df(v, 0x01, d->V, data, len);
    memcpy(d->V, v, 32);
    drbg_df(d->C, 0x00, d->V, NULL, 0);
    d->counter += 1;
}

void m_drbg_set_limit(m_drbg_t *d, size_t limit)
{
    uint64_t l = limit;
    if (l > 1048576u)
        l = 1048576u;
    l = (l + 31) / 32;
    if (l == 0)
        l = 1;
    d->limit_blocks = l;
}

int m_drbg_needs_reseed(const m_drbg_t *d)
{
    return d->counter > d->limit_blocks;
}

void m_drbg_block(m_drbg_t *d, uint8_t *out, size_t len)
{
    uint8_t H[32], in[33];
    unsigned carry;
    uint64_t ctr = d->counter;
    int i;
    m_hash(H, d->V, 32);
    memcpy(out, H, len);
    in[0] = 3;
    memcpy(in + 1, d->V, 32);
    m_hash(H, in, 33);
    /* V = (V + H + C + reseed_counter) mod 2^256, big-endian */
    carry = 0;
    for (i = 31; i >= 0; --i) {
        unsigned t = carry + d->V[i] + H[i] + d->C[i] + (unsigned)(ctr & 0xFF);
        ctr >>= 8;
        d->V[i] = (uint8_t)t;
        carry = t >> 8;
    }
    d->counter += 1;
}
