/* Model self-check: the reference model must reproduce the pinned known-answer vectors.
 * Exit 0 = model agrees with every pinned vector; anything else means the oracle itself
 * cannot be trusted and every check must report "inconclusive" (exit 2), never a violation. */
#include "model.h"
#include <stdio.h>
#include <stdlib.h>
#include <string.h>

static size_t unhex(const char *s, uint8_t *out)
{
    size_t n = 0;
    if (s[0] == '-') return 0;
    while (s[0] && s[1]) {
        unsigned v;
        sscanf(s, "%2x", &v);
        out[n++] = (uint8_t)v;
        s += 2;
    }
    return n;
}

int main(int argc, char **argv)
{
    static char line[20000];
    static char f[6][4200];
    static uint8_t b[6][2100], out[2200];
    FILE *fp;
    unsigned long n = 0, bad = 0, kinds[4] = {0, 0, 0, 0};
    if (argc < 2) { fprintf(stderr, "usage: selfcheck vectors.txt\n"); return 2; }
    fp = fopen(argv[1], "r");
    if (!fp) { perror(argv[1]); return 2; }
    while (fgets(line, sizeof line, fp)) {
        size_t l[6] = {0};
        int nf = sscanf(line, "%4199s %4199s %4199s %4199s %4199s %4199s", f[0], f[1], f[2], f[3], f[4], f[5]);
        int i, ok = 0;
        for (i = 1; i < nf; ++i) l[i] = unhex(f[i], b[i]);
        if (!strncmp(f[0], "aead", 4) && nf == 6) {
            int ks = atoi(f[0] + 4);
            uint8_t tag[8];
            m_aead_encrypt(ks, out, b[4], l[4], b[3], l[3], b[2], b[1]);
            ok = l[5] == l[4] + 8 && !memcmp(out, b[5], l[5]);
            /* and the opening direction */
            m_aead_open(ks, out, tag, b[5], l[5] - 8, b[3], l[3], b[2], b[1]);
            ok = ok && !memcmp(out, b[4], l[4]) && !memcmp(tag, b[5] + l[4], 8);
            kinds[0]++;
        } else if (!strncmp(f[0], "siv", 3) && nf == 6) {
            int ks = atoi(f[0] + 3);
            uint8_t tag[8];
            m_siv_encrypt(ks, out, b[4], l[4], b[3], l[3], b[2], b[1]);
            ok = l[5] == l[4] + 8 && !memcmp(out, b[5], l[5]);
            m_siv_open(ks, out, tag, b[5], l[5] - 8, b[5] + l[5] - 8, b[3], l[3], b[2], b[1]);
            ok = ok && !memcmp(out, b[4], l[4]) && !memcmp(tag, b[5] + l[4], 8);
            kinds[1]++;
        } else if (!strcmp(f[0], "hash") && nf == 3) {
            m_hash(out, b[1], l[1]);
            ok = l[2] == 32 && !memcmp(out, b[2], 32);
            kinds[2]++;
        } else if (!strcmp(f[0], "hmac") && nf == 4) {
            m_hmac(out, b[1], l[1], b[2], l[2]);
            ok = l[3] == 32 && !memcmp(out, b[3], 32);
            kinds[3]++;
        } else {
            fprintf(stderr, "selfcheck: unparsable line %lu\n", n + 1);
            return 2;
        }
        ++n;
        if (!ok) {
            if (bad < 5) fprintf(stderr, "selfcheck: MISMATCH on vector %lu (%s)\n", n, f[0]);
            ++bad;
        }
    }
    fclose(fp);
    printf("model selfcheck: %lu vectors (aead %lu, siv %lu, hash %lu, hmac %lu), %lu mismatches\n",
           n, kinds[0], kinds[1], kinds[2], kinds[3], bad);
    if (n < 1000 || !kinds[0] || !kinds[1] || !kinds[2] || !kinds[3]) return 2;
    return bad ? 1 : 0;
}
