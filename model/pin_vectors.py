#!/usr/bin/env python3
"""Regenerates model/pinned/vectors.txt from the KAT files of the PINNED commit of /repo
(never from the working tree), so that later edits to /repo/test/kat cannot move the oracle.
Run once when the model is written; the output is committed."""
import subprocess, sys
PIN = "5a6d54e"
FILES = [("aead16", "TinyJAMBU-128.txt"), ("aead24", "TinyJAMBU-192.txt"), ("aead32", "TinyJAMBU-256.txt"),
         ("siv16", "TinyJAMBU-128-SIV.txt"), ("siv24", "TinyJAMBU-192-SIV.txt"), ("siv32", "TinyJAMBU-256-SIV.txt"),
         ("hash", "TinyJAMBU-HASH.txt"), ("hmac", "TinyJAMBU-HMAC.txt")]
def parse(text):
    rec = {}
    for line in text.splitlines():
        line = line.strip()
        if not line:
            if rec: yield rec
            rec = {}
            continue
        k, _, v = line.partition("=")
        rec[k.strip()] = v.strip()
    if rec: yield rec
out = []
for kind, fn in FILES:
    text = subprocess.check_output(["git", "-C", "/repo", "show", f"{PIN}:test/kat/{fn}"], text=True)
    for r in parse(text):
        n = int(r["Count"])
        h = lambda s: s if s else "-"
        if kind.startswith(("aead", "siv")):
            if not (n <= 70 or n % 5 == 0 or n > 1050): continue
            out.append(" ".join([kind, h(r["Key"]), h(r["Nonce"]), h(r["AD"]), h(r["PT"]), h(r["CT"])]))
        elif kind == "hash":
            if not (n <= 70 or n % 3 == 0): continue
            out.append(" ".join([kind, h(r["Msg"]), h(r["MD"])]))
        else:
            if not (n <= 70 or n % 3 == 0): continue
            out.append(" ".join([kind, h(r["Key"]), h(r["Msg"]), h(r["Tag"])]))
open("pinned/vectors.txt", "w").write("\n".join(out) + "\n")
print(len(out), "vectors pinned")
