/* mine.c - model-guided search for inputs whose INTERNAL values are rare (probability about 2^-32 per operation):
 * a chaining / keystream / tag / DRBG word equal to 0 or 0xFFFFFFFF, two equal neighbouring words, four low bytes
 * equal to 00 or FF, a forged SIV packet whose recomputed tag differs from the received one by the same amount in both
 * halves or in one half only, two consecutive DRBG blocks that begin with the same word, a word of V + H that is zero.
 * Random or structured sampling inside a check never meets these; a defect that is keyed to one of them (a "nothing to
 * do" shortcut on a zero word, an accumulator that is too narrow, an XOR where an OR was meant, <= for <) is invisible to
 * it.  The search uses only the reference model (with its batch permutation, pinned to the literal one), never the
 * library: the corpus it prints is a function of the specification and is committed as model/pinned/special.txt.  The
 * harnesses replay every entry through their ordinary oracles, so a wrong corpus entry can cost coverage, never raise an
 * alarm.
 *
 *   gcc -O2 -pthread -o mine mine.c model.c && ./mine <task> <log2 candidates> <threads> [<first candidate>]   >> pinned/special.txt
 *   tasks: hashmid hashfin hmacin pbkdf2 aead128 aead192 aead256 sivforge128 sivforge192 sivforge256 siv128 siv192 siv256 prng
 */
#include "model.h"
#include <pthread.h>
#include <stdio.h>
#include <stdlib.h>
#include <string.h>

static pthread_mutex_t mu = PTHREAD_MUTEX_INITIALIZER;
static const char *task;
static unsigned long long per_thread, start;      /* candidates per thread; first candidate (to continue an earlier run) */
static int nthreads;
#define MAXPAT 96
static int hits[MAXPAT];
static const int WANT = 4;      /* entries kept per pattern */

static void hex(char *d, const uint8_t *p, size_t n) { static const char H[] = "0123456789abcdef"; size_t i; for (i = 0; i < n; ++i) { d[2 * i] = H[p[i] >> 4]; d[2 * i + 1] = H[p[i] & 15]; } d[2 * n] = 0; }
static uint32_t ld(const uint8_t *p) { return (uint32_t)p[0] | ((uint32_t)p[1] << 8) | ((uint32_t)p[2] << 16) | ((uint32_t)p[3] << 24); }

/* word patterns over nw words; returns a pattern id >= 0 for the first pattern that holds, -1 for none.  `base` offsets ids. */
static int word_patterns(const uint32_t *w, int nw, char *name, size_t cap)
{
    int i;
    for (i = 0; i < nw; ++i) {
        if (w[i] == 0) { snprintf(name, cap, "w%d=00000000", i); return i * 2; }
        if (w[i] == 0xFFFFFFFFu) { snprintf(name, cap, "w%d=ffffffff", i); return i * 2 + 1; }
    }
    for (i = 0; i + 1 < nw; ++i) if (w[i] == w[i + 1]) { snprintf(name, cap, "w%d=w%d", i, i + 1); return 2 * nw + i; }
    for (i = 0; i + 4 <= nw; i += 4) {
        uint32_t o = w[i] | w[i + 1] | w[i + 2] | w[i + 3], a = w[i] & w[i + 1] & w[i + 2] & w[i + 3];
        if ((o & 0xFF) == 0) { snprintf(name, cap, "lowbytes(w%d..w%d)=00", i, i + 3); return 3 * nw + i; }
        if ((a & 0xFF) == 0xFF) { snprintf(name, cap, "lowbytes(w%d..w%d)=ff", i, i + 3); return 3 * nw + i + 1; }
        if ((o >> 24) == 0) { snprintf(name, cap, "highbytes(w%d..w%d)=00", i, i + 3); return 3 * nw + i + 2; }
        if ((a >> 24) == 0xFF) { snprintf(name, cap, "highbytes(w%d..w%d)=ff", i, i + 3); return 3 * nw + i + 3; }
    }
    return -1;
}

static int take(int pat)
{
    int ok;
    pthread_mutex_lock(&mu);
    ok = pat >= 0 && pat < MAXPAT && hits[pat] < WANT;
    if (ok) ++hits[pat];
    pthread_mutex_unlock(&mu);
    return ok;
}
static void emit(const char *line) { pthread_mutex_lock(&mu); puts(line); fflush(stdout); pthread_mutex_unlock(&mu); }

static void *worker(void *arg)
{
    unsigned tid = (unsigned)(size_t)arg;
    unsigned long long c;
    char name[64], line[1024], h1[600], h2[200], h3[64], h4[64];
    uint8_t key[32], n[12], ad[4] = {'h', 'd', 'r', '1'};
    int i, ks = strstr(task, "128") ? 16 : strstr(task, "192") ? 24 : 32;
    for (i = 0; i < 32; ++i) key[i] = (uint8_t)(i * 17 + 3 + tid * 29);
    for (i = 0; i < 12; ++i) n[i] = (uint8_t)(0xB0 + i + tid);
    if (!strcmp(task, "hashmid") || !strcmp(task, "hashfin")) {
        int fin = task[4] == 'f';
        for (c = start; c < start + per_thread; ++c) {
            uint8_t msg[17];
            uint32_t w[8];
            int pat;
            memcpy(msg, "TJ-special-", 8); msg[6] = (uint8_t)tid; msg[7] = (uint8_t)fin;
            for (i = 0; i < 8; ++i) msg[8 + i] = (uint8_t)(c >> (8 * i));
            msg[16] = 0x2E;
            if (fin) {
                uint8_t d[32];
                m_hash(d, msg, 12);
                for (i = 0; i < 8; ++i) w[i] = ld(d + 4 * i);
            } else {
                m_hash_t h;
                m_hash_init(&h); m_hash_update(&h, msg, 17);      /* the 17th byte makes the first block get compressed */
                for (i = 0; i < 4; ++i) { w[i] = ld(h.L + 4 * i); w[4 + i] = ld(h.R + 4 * i); }
            }
            pat = word_patterns(w, 8, name, sizeof name);
            if (pat >= 0 && take(pat)) {
                hex(h1, msg, fin ? 12 : 16);
                snprintf(line, sizeof line, "%s %s %s", fin ? "hashfin" : "hashmid", h1, name);
                emit(line);
            }
        }
    } else if (!strncmp(task, "aead", 4) || (!strncmp(task, "siv", 3) && strncmp(task, "sivforge", 8))) {
        int siv = task[0] == 's';
        uint8_t m[16], cbuf[24];
        for (i = 0; i < 16; ++i) m[i] = (uint8_t)(0x40 + i * 5 + tid);
        for (c = start; c < start + per_thread; ++c) {
            uint32_t w[6];
            int pat;
            for (i = 0; i < 8; ++i) n[4 + i] = (uint8_t)(c >> (8 * i));
            if (siv) m_siv_encrypt(ks, cbuf, m, 16, ad, 4, n, key); else m_aead_encrypt(ks, cbuf, m, 16, ad, 4, n, key);
            for (i = 0; i < 4; ++i) w[i] = ld(cbuf + 4 * i) ^ ld(m + 4 * i);      /* keystream words */
            w[4] = ld(cbuf + 16); w[5] = ld(cbuf + 20);                              /* tag halves */
            pat = word_patterns(w, 6, name, sizeof name);
            if (pat >= 0 && take(pat)) {
                hex(h1, key, (size_t)ks); hex(h2, n, 12); hex(h3, ad, 4); hex(h4, m, 16);
                snprintf(line, sizeof line, "%s %d %s %s %s %s ks0..3,t0,t1:%s", siv ? "siv" : "aead", ks, h1, h2, h3, h4, name);
                emit(line);
            }
        }
    } else if (!strncmp(task, "sivforge", 8)) {
        uint8_t m[8] = {'p', 'a', 'y', ' ', 0, 0, 0, 100}, pkt[16], body[8], rec[8], t2[8];
        m[4] = (uint8_t)tid;
        m_siv_encrypt(ks, pkt, m, 8, ad, 4, n, key);
        for (c = start + 1; c <= start + per_thread; ++c) {
            uint32_t d0, d1;
            int pat = -1;
            for (i = 0; i < 8; ++i) body[i] = pkt[i] ^ (uint8_t)(c >> (8 * i));
            m_siv_open(ks, rec, t2, body, 8, pkt + 8, ad, 4, n, key);
            d0 = ld(t2) ^ ld(pkt + 8); d1 = ld(t2 + 4) ^ ld(pkt + 12);
            if (d0 == d1) { pat = 0; strcpy(name, "d0=d1"); }
            else if (d0 == 0) { pat = 1; strcpy(name, "d0=0"); }
            else if (d1 == 0) { pat = 2; strcpy(name, "d1=0"); }
            else if (d0 == ~d1) { pat = 3; strcpy(name, "d0=~d1"); }
            else if (((d0 | d1) & 0xFF) == 0 && ((d0 | d1) & 0xFF00) == 0) { pat = 4; strcpy(name, "low16(d0|d1)=0"); }   /* 2^-32: differences invisible to a 16-bit accumulator */
            if (pat >= 0 && (d0 | d1) != 0 && take(pat)) {
                uint8_t forged[16];
                memcpy(forged, body, 8); memcpy(forged + 8, pkt + 8, 8);
                hex(h1, key, (size_t)ks); hex(h2, n, 12); hex(h3, ad, 4); hex(h4, forged, 16);
                snprintf(line, sizeof line, "sivforge %d %s %s %s %s tagdiff:%s", ks, h1, h2, h3, h4, name);
                emit(line);
            }
        }
    } else if (!strcmp(task, "hmacin")) {
        /* HMAC: the INNER digest H((K ^ ipad) || m) has a rare word pattern (key fixed per thread, 8-byte messages) */
        uint8_t k16[16], blk[64], msg[8], d[32];
        m_hash_t h0, h;
        for (i = 0; i < 16; ++i) k16[i] = (uint8_t)("hmac-special-key"[i] ^ (i == 15 ? tid : 0));
        memset(blk, 0x36, 64); for (i = 0; i < 16; ++i) blk[i] ^= k16[i];
        m_hash_init(&h0); m_hash_update(&h0, blk, 64);
        msg[0] = 0x5A; m_hash_update(&h0, msg, 1);      /* forces the fourth ipad block to be compressed once, not per candidate */
        for (c = start; c < start + per_thread; ++c) {
            uint32_t w[8];
            int pat;
            for (i = 0; i < 7; ++i) msg[1 + i] = (uint8_t)(c >> (8 * i));
            h = h0; m_hash_update(&h, msg + 1, 7); m_hash_final(&h, d);
            for (i = 0; i < 8; ++i) w[i] = ld(d + 4 * i);
            pat = word_patterns(w, 8, name, sizeof name);
            if (pat >= 0 && take(pat)) {
                hex(h1, k16, 16); hex(h2, msg, 8);
                snprintf(line, sizeof line, "hmacin %s %s inner-digest:%s", h1, h2, name);
                emit(line);
            }
        }
    } else if (!strcmp(task, "pbkdf2")) {
        /* PBKDF2 block 1: at some iteration j (2..48) a word of the accumulator T = U_1 ^ .. ^ U_(j-1) equals the same word
         * of U_j (the XOR result word is zero), or a word of U_j is 0 / ffffffff */
        static const uint8_t pw[8] = {'p', 'a', 's', 's', 'w', 'o', 'r', 'd'};
        uint8_t blk[64];
        m_hash_t hi, ho;
        memset(blk, 0x36, 64); for (i = 0; i < 8; ++i) blk[i] ^= pw[i];
        m_hash_init(&hi); m_hash_update(&hi, blk, 64);
        memset(blk, 0x5C, 64); for (i = 0; i < 8; ++i) blk[i] ^= pw[i];
        m_hash_init(&ho); m_hash_update(&ho, blk, 64);
        for (c = start - start % 47; c < start + per_thread; c += 47) {
            uint8_t salt[24], U[32], T[32], in[32];
            m_hash_t h;
            int sl = snprintf((char *)salt, sizeof salt, "salt-%02x%08llx", tid, c / 47), j;
            salt[sl] = 0; salt[sl + 1] = 0; salt[sl + 2] = 0; salt[sl + 3] = 1;
            h = hi; m_hash_update(&h, salt, (size_t)sl + 4); m_hash_final(&h, in);
            h = ho; m_hash_update(&h, in, 32); m_hash_final(&h, U);
            memcpy(T, U, 32);
            for (j = 2; j <= 48; ++j) {
                int pat = -1, w;
                h = hi; m_hash_update(&h, U, 32); m_hash_final(&h, in);
                h = ho; m_hash_update(&h, in, 32); m_hash_final(&h, U);
                for (w = 0; w < 8 && pat < 0; ++w) {
                    if (ld(T + 4 * w) == ld(U + 4 * w)) { pat = w; snprintf(name, sizeof name, "T.w%d=U_j.w%d", w, w); }
                    else if (ld(U + 4 * w) == 0) { pat = 8 + w; snprintf(name, sizeof name, "U_j.w%d=00000000", w); }
                    else if (ld(U + 4 * w) == 0xFFFFFFFFu) { pat = 16 + w; snprintf(name, sizeof name, "U_j.w%d=ffffffff", w); }
                }
                if (pat >= 0 && take(pat)) {
                    hex(h1, pw, 8); hex(h2, salt, (size_t)sl);
                    snprintf(line, sizeof line, "pbkdf2 %s %s %d %s", h1, h2, j, name);
                    emit(line);
                }
                for (w = 0; w < 32; ++w) T[w] ^= U[w];
            }
        }
    } else if (!strcmp(task, "prng")) {
        for (c = start - start % 48; c < start + per_thread; c += 48) {
            m_drbg_t d;
            uint8_t seed[32], custom[16], blk[32], prev[32], hb[33], H[32];
            int b, cl;
            for (i = 0; i < 32; ++i) seed[i] = (uint8_t)i;
            cl = snprintf((char *)custom, sizeof custom, "sp%02x-%08llx", tid, c / 48);
            m_drbg_init(&d, seed, custom, (size_t)cl);
            d.limit_blocks = 32768;
            memset(prev, 0, 32);
            for (b = 0; b < 48; ++b) {
                uint32_t w[8], s[8], vb[8];
                int pat = -1, j;
                hb[0] = 0x03; memcpy(hb + 1, d.V, 32); m_hash(H, hb, 33);
                for (j = 0; j < 8; ++j) {      /* big-endian words: V is a 256-bit big-endian number */
                    uint32_t v = ((uint32_t)d.V[4 * j] << 24) | ((uint32_t)d.V[4 * j + 1] << 16) | ((uint32_t)d.V[4 * j + 2] << 8) | d.V[4 * j + 3];
                    uint32_t h = ((uint32_t)H[4 * j] << 24) | ((uint32_t)H[4 * j + 1] << 16) | ((uint32_t)H[4 * j + 2] << 8) | H[4 * j + 3];
                    vb[j] = v; s[j] = h;
                }
                { uint32_t carry = 0; for (j = 7; j >= 0; --j) { uint64_t t = (uint64_t)vb[j] + s[j] + carry; s[j] = (uint32_t)t; carry = (uint32_t)(t >> 32); } }   /* V + H, word-wise with carries */
                {   /* does adding the block counter to the low word of V + H + C carry out of that word? (probability counter / 2^32) */
                    uint32_t c7 = ((uint32_t)d.C[28] << 24) | ((uint32_t)d.C[29] << 16) | ((uint32_t)d.C[30] << 8) | d.C[31];
                    uint64_t low = (uint64_t)(uint32_t)(s[7] + c7) + (uint64_t)d.counter;
                    if (low >> 32) { pat = 17; snprintf(name, sizeof name, "low32(V+H+C)+counter-carries"); }
                }
                m_drbg_block(&d, blk, 32);
                for (j = 0; j < 8; ++j) w[j] = ld(blk + 4 * j);
                for (j = 0; j < 8 && pat < 0; ++j) if (s[j] == 0) { pat = j; snprintf(name, sizeof name, "(V+H).w%d=00000000", j); }
                for (j = 0; j < 8 && pat < 0; ++j) if (s[j] == 0xFFFFFFFFu) { pat = 8 + j; snprintf(name, sizeof name, "(V+H).w%d=ffffffff", j); }
                if (pat < 0 && b > 0 && !memcmp(blk, prev, 4)) { pat = 16; strcpy(name, "block.w0=previous-block.w0"); }
                if (pat < 0) { int p2 = word_patterns(w, 8, name + 4, sizeof name - 4); if (p2 >= 0) { memcpy(name, "out.", 4); pat = 20 + p2; } }
                if (pat < 0) { uint32_t nv[8]; int p2; for (j = 0; j < 8; ++j) nv[j] = ((uint32_t)d.V[4 * j] << 24) | ((uint32_t)d.V[4 * j + 1] << 16) | ((uint32_t)d.V[4 * j + 2] << 8) | d.V[4 * j + 3];
                                p2 = word_patterns(nv, 8, name + 5, sizeof name - 5); if (p2 >= 0 && p2 < 16) { memcpy(name, "newV.", 5); pat = 60 + p2; } }
                if (pat >= 0 && take(pat)) {
                    hex(h1, seed, 32); hex(h2, custom, (size_t)cl);
                    snprintf(line, sizeof line, "prng %s %s %d %s", h1, h2, b + 1, name);      /* the rare value occurs while producing block b+1 */
                    emit(line);
                }
                memcpy(prev, blk, 32);
            }
        }
    } else { fprintf(stderr, "unknown task\n"); exit(2); }
    return NULL;
}

int main(int argc, char **argv)
{
    pthread_t th[64];
    int i, lg;
    if (argc < 4) { fprintf(stderr, "usage: mine <task> <log2 candidates> <threads>\n"); return 2; }
    task = argv[1]; lg = atoi(argv[2]); nthreads = atoi(argv[3]);
    if (nthreads < 1 || nthreads > 64) nthreads = 16;
    if (m_use_fast_perm(1)) { fprintf(stderr, "batch permutation disagrees with the literal one\n"); return 2; }
    per_thread = (1ULL << lg) / (unsigned)nthreads;
    if (argc > 4) start = strtoull(argv[4], NULL, 0);
    for (i = 0; i < nthreads; ++i) pthread_create(&th[i], NULL, worker, (void *)(size_t)i);
    for (i = 0; i < nthreads; ++i) pthread_join(th[i], NULL);
    return 0;
}
