#!/usr/bin/env python3
"""Writes /verif/MANIFEST.json from the table below (single source of truth for the interface)."""
import json, os, sys
V = os.path.dirname(os.path.dirname(os.path.abspath(__file__)))
sys.path.insert(0, V)
from engine import props

T = {
 "C01": ("exploration", "differential round-trip oracle under guard pages + ASan/UBSan over an exhaustive length window",
         "3.C01", "Runs the real encrypt/decrypt on every (adlen, mlen) pair of a window covering every residue mod 4, all alignments, in-place and separate buffers, 6 byte classes, production + matrix + ASan/UBSan builds; held = every observed execution round-tripped. Sampling of contents and of long lengths; not a proof.",
         "round-trip identities need no model; trusted: harness, compilers; contents/long lengths sampled"),
 "C02": ("exploration", "reference-model differential (bit-serial spec NLFSR pinned to KATs) across a compiler/optimisation matrix",
         "3.C02", "Every generated case is judged bit-for-bit against a literal model of the TinyJAMBU v2 specification in both directions, on the same case list for every build (gcc/clang, -O0..-Os, static/shared, ASan/UBSan).",
         "trusted: the model (anchored by pinned KAT vectors and by being a literal transcription), harness; inputs sampled"),
 "C03": ("exploration", "tamper batteries with exact expected verdicts from the reference model",
         "3.C03", "For thousands of packets, >2000 structured wrong tags each (every bit, every byte value, cancellation patterns) plus body/AD/nonce/key flips, truncation, extension, boundary shifts and clen<8; verdict must equal 'received tag == model tag'.",
         "2^64-1 wrong tags per packet sampled structurally; trusted: model, harness"),
 "C04": ("exploration", "post-rejection read-back of the plaintext region (junk-prefilled, guard-page placed), all lengths 0..300 and up to 16 MiB",
         "3.C04", "Every rejected decryption observed (6 variants, in place and separate) has its whole output region inspected; held = all bytes zero on every rejection and plaintext on every acceptance.",
         "lengths above the dense window are sampled; trusted: harness"),
 "C05": ("exploration", "ISA interpreters with ABI monitors executing every shipped assembly backend + native C backend vs bit-serial spec + generator re-run diff",
         "3.C05", "Runs each of the 24 .S files (27 programs with Xtensa ABIs) instruction by instruction under an interpreter that checks result, write set, callee-saved registers, stack and return; compares the C backend natively on all builds; regenerates the 21 generated files and compares bytes.",
         "interpreters written for this task (cross-checked against LLVM decode where LLVM has the target); states/keys sampled; no real silicon"),
 "C06": ("exploration", "guard pages + read-only inputs on production objects, ASan+UBSan, MSan with output definedness assertions, junk differential, valgrind memcheck",
         "3.C06", "The whole public API is driven over exhaustive length windows, alignments 0..7, NULL/0, aliasing, with buffers abutting PROT_NONE pages and poisoned surroundings; any fault, sanitizer report, canary change, input modification or junk-dependent output is a violation.",
         "red-zone tools miss intra-object overflows; lengths >= 2^32 are run by the thorough tiers of C01-C04, C08-C12, C14, C15, C17 (guarded sparse mappings), not here"),
 "C07": ("exploration", "memcheck as secret-taint tracker (ctgrind, incl. OS-provided entropy) on -O2/-O3 gcc/clang objects + instruction/address trace equality under lackey between markers",
         "3.C07", "Secrets are marked undefined; any branch/address/syscall depending on them inside a library frame is a report; a leaky positive control must fire on every run. Trace-equivalence groups cross-check on concrete executions.",
         "instruction-latency channels invisible; assembly backends not covered here; valgrind's propagation rules trusted"),
 "C08": ("exploration", "SIV round-trip + tamper batteries with exact verdicts from the SIV model",
         "3.C08", "As C01+C03 for the three SIV variants, including in-place encryption/decryption and nonce-half-specific tampering.",
         "trusted: model, harness; inputs sampled"),
 "C09": ("exploration", "reference-model differential for the two-pass construction + nonce-reuse pair relations with AEAD positive control + bundled sivref second opinion",
         "3.C09", "Every case equals the model of the documented construction; nonce-reuse pairs must have different IVs and unrelated bodies while the same pairs through AEAD are related (proves the monitor can see relatedness).",
         "pair coincidences have probability <= 2^-64; trusted: model"),
 "C10": ("exploration", "reference-model differential (MDPH over bit-serial TinyJAMBU-256) over all lengths 0..600+, byte classes, alignments, build matrix + bundled hashref second opinion",
         "3.C10", "Digest equality with a literal model of the README construction for every length in a dense window and sampled long messages, on every build.",
         "trusted: model pinned to hash KATs; contents sampled"),
 "C11": ("exploration", "exhaustive chunk compositions + shadow-state history checker over interleaved operations on several state objects",
         "3.C11", "All 2^(n-1) compositions of every length n <= N (quick 14, thorough 20), zero-length updates, random histories of init/reinit/update/finalize/free across 4 states with a per-state shadow; digest must equal one-shot and model.",
         "exhaustive for the stated n, sampled beyond; finalized states are never continued without reinit"),
 "C12": ("exploration", "RFC 2104 reference-model differential over all key lengths 0..200, streaming, reinit histories",
         "3.C12", "HMAC equality with an independent RFC 2104 model for every key length around the block size and many message lengths/chunkings.",
         "trusted: model; messages sampled"),
 "C13": ("exploration", "RFC 5869 reference-model differential + refusal/zero-fill rules over output partitions",
         "3.C13", "One-shot lengths 0..8160+ and random partitions into expand calls crossing the cap; bytes equal the model, refusals write nothing / zero-fill exactly past 8160.",
         "partitions sampled; trusted: model"),
 "C14": ("exploration", "RFC 8018 reference-model differential with guard-page exact-length oracle",
         "3.C14", "PBKDF2 output equals the model for password/salt/count/outlen grids incl. >255 blocks; output buffer abuts a guard page.",
         "large counts limited to short outputs; trusted: model"),
 "C15": ("exploration", "shadow Hash_DRBG checked online against random call histories with a scripted entropy callback",
         "3.C15", "Every output byte and every entropy request of thousands of histories is predicted by a shadow DRBG over the model hash.",
         "seed buffer content after the callback is taken as the 256-bit entropy input; histories sampled"),
 "C16": ("exploration", "byte-budget invariant monitor on (callback, output) events, bounded-exhaustive operation sequences + twin-run feed monitor",
         "3.C16", "All operation sequences up to a bound over a small alphabet, and long random runs: bytes emitted between consecutive entropy requests never exceed the rounded limit in force.",
         "exhaustive for the stated alphabet/length, sampled beyond"),
 "C17": ("fault_enumeration", "enumerated short/zero/full delivery patterns through a scripted callback + forked NULL-callback run with interposed getrandom",
         "3.C17", "All delivery patterns over the first 4 entropy requests x customisations; status iff full, output equals shadow model, streams not constant; NULL callback behaves exactly like plain init.",
         "fault space = callback return sizes; trusted: model"),
 "C18": ("fault_enumeration", "libc-boundary fault injection (scripted getrandom/getentropy/syscall/open/read) over all EINTR/EAGAIN prefixes + strace -e inject on the production binary",
         "3.C18", "Every transient prefix up to length 10 x {success, 5 permanent errnos} for each build variant of the entropy source; call counts decide termination; fd census; end-to-end strace injection.",
         "fault alphabet as in the property; EOF on /dev/urandom out of scope"),
 "C19": ("exploration", "TSan differential stress (concurrent == serial) + helgrind on production objects + writable-segment snapshot + heap interposition + history independence",
         "3.C19", "Many threads run the whole API on private objects under ThreadSanitizer with results compared to serial execution; deterministic monitors catch static state and heap use without needing a lucky interleaving.",
         "TSan sees only interleavings that happened; concurrent use of one object is out of scope"),
 "C20": ("exploration", "post-free state read-back over random histories + exact-range clean monitor + dead-buffer wipe-survival probe across compiler/config matrix with weak-wipe positive controls",
         "3.C20", "Every state type is freed after random histories and read back; clean is checked for every (offset,size) in a window; wipe survival is observed in unity/LTO builds for both primitive configurations.",
         "register/spill copies outside the wiped buffer are not claimed"),
}

ILP32 = {"C01", "C02", "C03", "C04", "C06", "C08", "C09", "C10", "C11", "C12", "C13", "C14", "C15", "C16", "C17", "C20"}


def main():
    checks, na = [], []
    for pid in sorted(T):
        lvl, tech, ref, text, note = T[pid]
        if pid in ILP32:
            tech += "; the same oracle on non-default configurations of the sources (NDEBUG + forced C32, byte-order-neutral paths + no explicit_bzero, strict C99 + unsigned char), a line-by-line differential of ILP32 (-m32, freestanding, guard pages) builds against the model, buffers mapped in four address classes and slid across page / 4 GiB boundaries, and replay of a model-mined corpus of inputs with rare (about 2^-32) internal values"
            text += " Thorough tier: single calls with lengths/counts of 2^31..2^32 and beyond (see DESIGN.md section 11)."
        if pid in props.CHECKS:
            assert props.CHECKS[pid][0] == lvl, pid
            checks.append({
                "property_id": pid,
                "quick_cmd": "VERIF_TIER=quick bin/check %s" % pid,
                "thorough_cmd": "VERIF_TIER=thorough bin/check %s" % pid,
                "evidence_file": "/verif/evidence/%s.json" % pid,
                "replay_cmd_template": "bin/check %s --replay {path}" % pid,
                "engine": "runtime-monitor",
                "level_claimed": {"category": lvl, "text": text, "design_ref": "DESIGN.md " + ref},
                "level_note": note,
                "technique": tech,
            })
        else:
            na.append({"property_id": pid, "reason": "check not built yet in this revision of /verif (planned: %s)" % tech})
    m = {
        "version": 1,
        "setup_cmd": "bin/setup",
        "hooks": {
            "guard": "RWEATHER_TINYJAMBU_VERIF",
            "enable": "checks compile /repo's working tree themselves with -DRWEATHER_TINYJAMBU_VERIF (all direct compiler builds; the cmake production build is left without it); one hook exists: tinyjambu_prng_verif_get_counter / _set_counter in src/tinyjambu-prng.c, used by C16 to reach block-counter values that need ~2^32 API calls",
            "baseline_off_cmd": "rm -rf /tmp/tjv-baseline && cmake -S /repo -B /tmp/tjv-baseline -G Ninja >/dev/null && cmake --build /tmp/tjv-baseline >/dev/null && ctest --test-dir /tmp/tjv-baseline -j8 --timeout 900; rc=$?; rm -rf /tmp/tjv-baseline; exit $rc",
            "source_commits": ["86c607b"],
            "add_only": True,
        },
        "engines": [{"name": "runtime-monitor", "path": "bin/check", "serves_properties": sorted(props.CHECKS),
                     "kind_free_text": "Python driver + C harnesses: builds /repo's working tree in many configurations (production cmake build, compiler matrix, ASan/UBSan, MSan, TSan), runs hostile workloads under guard pages / sanitizers / valgrind / fault injection, judges with a reference model and trace monitors"}],
        "checks": checks,
        "not_applicable": na,
        "notes": "All checks: exit 0 held / 1 VIOLATION / 2 inconclusive. VERIF_SEED selects random choices; enumerated parts do not depend on it. known_findings.json lists genuine defects: four, all repaired by fix: commits in /repo (972a5de C17, b86dcde C16, b01c296 C20, 763a886 C10); no open known finding.",
    }
    with open(os.path.join(V, "MANIFEST.json"), "w") as f:
        json.dump(m, f, indent=1)
    print("MANIFEST.json: %d checks, %d not_applicable" % (len(checks), len(na)))

main()
