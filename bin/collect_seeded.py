#!/usr/bin/env python3
"""Copies a confirmed seeded change into /verif/seeded/<id>/ (patch.diff, demonstration, notes, meta.json).
usage: collect_seeded.py <prop> <n> <name> <eval json> [<eval json> ...]"""
import json, os, re, shutil, sys
V = os.path.dirname(os.path.dirname(os.path.abspath(__file__)))
prop, n, name = sys.argv[1], sys.argv[2], sys.argv[3]
ORIGIN = os.environ.get("ORIGIN", "independent sub-agent given only the property text and a scratch worktree")
evals = [json.load(open(f)) for f in sys.argv[4:]]
out = "/tmp/mut/out-%s" % prop.lower()
if not os.path.isdir(out):
    out = sys.argv[4].rsplit("/", 1)[0]
d = os.path.join(V, "seeded", name)
os.makedirs(d, exist_ok=True)
shutil.copy(os.path.join(evals[0]["patch"]), os.path.join(d, "patch.diff"))
src_out = os.path.dirname(evals[0]["patch"])
for f in os.listdir(src_out):
    if re.match(r"demo%s([._-].*)?\.(c|sh|py)$" % n, f) and os.path.isfile(os.path.join(src_out, f)):      # demo1.sh, demo1_main.c, demo2-shortcut.sh ...
        shutil.copy(os.path.join(src_out, f), os.path.join(d, f.replace("demo%s" % n, "demo", 1)))
notes = ""
np = os.path.join(src_out, "notes%s.txt" % n)
if os.path.exists(np):
    notes = open(np).read().strip()
    open(os.path.join(d, "notes.txt"), "w").write(notes + "\n")
checks = {}
confirm = {}
for e in evals:
    for k, v in e["checks"].items():
        checks[k] = {"exit": v["rc"], "violation_keys": v["keys"]}
    for k in ("tests_pass", "ctest", "demo_with_patch", "demo_clean", "build_rc"):
        if k in e:
            confirm[k] = e[k]
caught = sorted(k for k, v in checks.items() if v["exit"] == 1)
meta = {
    "property": prop.upper(),
    "origin": ORIGIN,
    "what_it_needs_to_manifest": notes,
    "confirmed_in_scratch_worktree": confirm,
    "how_run": "patch applied to a scratch git worktree of /repo; project build + ctest; demonstration built against the changed and the unchanged library; then `VERIF_REPO=<worktree> VERIF_OUT=<scratch> bin/check <ID>` (same check code, rebuilding from that tree); patch undone afterwards",
    "checks_run": checks,
    "caught_by": caught,
    "missed_by": sorted(k for k, v in checks.items() if v["exit"] == 0),
}
json.dump(meta, open(os.path.join(d, "meta.json"), "w"), indent=1)
print(name, "caught_by", caught)
