#!/bin/sh
# Runs every quick check under several seeds from fresh processes; prints one line per run.
# usage: bin/soak.sh "1 2 3" [ids...]
cd "$(dirname "$0")/.."
seeds="$1"; shift
ids="$@"; [ -z "$ids" ] && ids="C01 C02 C03 C04 C05 C06 C07 C08 C09 C10 C11 C12 C13 C14 C15 C16 C17 C18 C19 C20"
for s in $seeds; do for c in $ids; do
  out=$(VERIF_SEED=$s VERIF_TIER=${VERIF_TIER:-quick} VERIF_OUT=${VERIF_OUT:-/tmp/tjv-soak} bin/check $c 2>&1); rc=$?
  echo "seed=$s $c rc=$rc $(echo "$out" | tail -1)"
  [ $rc -ne 0 ] && echo "$out" | grep -E "VIOLATION|INCONCLUSIVE|violation key" | head -5
done; done
