#!/usr/bin/env python3
"""Re-runs, for every seeded change, the quick checks that are recorded as catching it (in scratch worktrees given as
arguments, one mutant at a time per worktree) and reports changes that are no longer caught.
usage: regress_seeded.py <worktree> [<worktree> ...]     (worktrees must be clean checkouts of /repo's HEAD)"""
import json, os, subprocess, sys, queue, threading
V = os.path.dirname(os.path.dirname(os.path.abspath(__file__)))
wts = sys.argv[1:]
names = sorted(n for n in os.listdir(V + "/seeded") if os.path.exists(V + "/seeded/" + n + "/meta.json"))
only = os.environ.get("ONLY")
if only:
    names = [n for n in names if n.startswith(tuple(only.split(",")))]
q = queue.Queue()
for n in names:
    q.put(n)
lost, ok = [], []
lock = threading.Lock()

def worker(wt):
    while True:
        try:
            n = q.get_nowait()
        except queue.Empty:
            return
        meta = json.load(open(V + "/seeded/" + n + "/meta.json"))
        checks = [c.split("/")[0] for c in meta["caught_by"] if c.endswith("/quick")][:1]
        if not checks:
            with lock:
                ok.append((n, "thorough-only"))
            continue
        subprocess.run("git checkout -q -- . && git clean -fdq", shell=True, cwd=wt)
        r = subprocess.run(["git", "apply", V + "/seeded/" + n + "/patch.diff"], cwd=wt, stderr=subprocess.PIPE)
        if r.returncode:
            with lock:
                lost.append((n, "patch does not apply: " + r.stderr.decode()[:100]))
            continue
        env = dict(os.environ, VERIF_REPO=wt, VERIF_OUT="/tmp/mut/eval/regress-" + os.path.basename(wt), VERIF_TIER="quick")
        res = {}
        for c in checks:
            p = subprocess.run([V + "/bin/check", c], cwd=V, env=env, stdout=subprocess.PIPE, stderr=subprocess.STDOUT)
            res[c] = p.returncode
        subprocess.run("git checkout -q -- . && git clean -fdq", shell=True, cwd=wt)
        with lock:
            if all(v == 1 for v in res.values()):
                ok.append((n, res))
            else:
                lost.append((n, res))
            print("%-45s %s" % (n, res), flush=True)

ts = [threading.Thread(target=worker, args=(w,)) for w in wts]
[t.start() for t in ts]
[t.join() for t in ts]
print("caught again: %d   NOT caught: %d" % (len(ok), len(lost)))
for n, r in lost:
    print("LOST", n, r)
