#!/usr/bin/env python3
"""Evaluate one seeded change in its scratch worktree:
  1. apply patch to the (clean) worktree, build with cmake, run ctest (must pass), build + run the demo (must fail)
  2. run the given checks with VERIF_REPO=<worktree> (quick; thorough for those that stay silent if --thorough)
  3. undo the patch, re-run the demo against the clean build (must pass)
usage: eval_mutant.py <worktree> <outdir> <n> <check ids...> [--thorough] [--skip-confirm]
Prints a JSON summary line at the end."""
import json, os, re, subprocess, sys, shutil

def sh(cmd, cwd=None, env=None, timeout=3000):
    e = dict(os.environ); e.update(env or {})
    p = subprocess.run(cmd, cwd=cwd, env=e, shell=isinstance(cmd, str), stdout=subprocess.PIPE, stderr=subprocess.STDOUT, timeout=timeout)
    return p.returncode, p.stdout.decode(errors="replace")

def main():
    args = [a for a in sys.argv[1:] if not a.startswith("--")]
    flags = [a for a in sys.argv[1:] if a.startswith("--")]
    wt, out, n = args[0], args[1], args[2]
    ids = args[3:]
    V = os.path.dirname(os.path.dirname(os.path.abspath(__file__)))
    patch = os.path.join(out, "patch%s.diff" % n)
    res = {"worktree": wt, "patch": patch, "checks": {}}
    sh("git checkout -- . && git clean -fdq -e _b", cwd=wt)
    cands = [f for f in sorted(os.listdir(out)) if re.match(r"demo%s\.(c|sh|py)$" % n, f)]
    cands.sort(key=lambda f: 0 if f.endswith((".sh", ".py")) else 1)      # a script, when present, drives the C file
    demo = os.path.join(out, cands[0]) if cands else None
    def build():
        rc, o = sh("rm -rf _b && cmake -S . -B _b -G Ninja >/dev/null && cmake --build _b 2>&1 | tail -3", cwd=wt)
        return rc
    def run_demo():
        if not demo:
            return None
        if demo.endswith(".c"):
            txt = open(demo).read()
            lines = txt.splitlines()[:45]
            cmd = None
            for i, l in enumerate(lines):
                if re.search(r"\b(gcc|cc|clang)\s", l) and "demo%s" % n in "".join(lines[i:i + 3]):
                    parts = []
                    j = i
                    while j < len(lines):
                        t = re.sub(r"^\s*(?:/\*+|\*+)?\s*", "", lines[j]).rstrip()
                        cont = t.endswith("\\")
                        parts.append(t.rstrip("\\").strip())
                        j += 1
                        if not cont: break
                    cmd = " ".join(parts)
                    cmd = cmd[re.search(r"\b(gcc|cc|clang)\s", cmd).start():]
                    break
            if not cmd:
                cmd = "gcc -I%s/src demo%s.c %s/_b/src/libtinyjambu_static.a -o demo%s -lpthread" % (wt, n, wt, n)
            if "-lpthread" not in cmd and "-pthread" not in cmd: cmd += " -lpthread"
            rc, o = sh(cmd, cwd=out)
            if rc: return "build-failed: " + o[-300:]
            exe = re.search(r"-o\s+(\S+)", cmd).group(1)
            rc, o = sh("./" + os.path.basename(exe) if not exe.startswith("/") else exe, cwd=out, timeout=600)
            return rc
        rc, o = sh(("sh " if demo.endswith(".sh") else "python3 ") + demo, cwd=out, timeout=900)
        return rc
    if "--skip-confirm" not in flags:
        rc, o = sh(["git", "apply", patch], cwd=wt)
        if rc: res["error"] = "patch does not apply: " + o[-300:]; print(json.dumps(res)); return
        res["build_rc"] = build()
        rc, o = sh("ctest --test-dir _b -j8 2>&1 | tail -3", cwd=wt)
        res["ctest"] = o.strip().splitlines()[0] if o.strip() else ""
        res["tests_pass"] = "100% tests passed" in o
        res["demo_with_patch"] = run_demo()
    else:
        rc, o = sh(["git", "apply", patch], cwd=wt)
    for cid in ids:
        tiers = ["quick"] + (["thorough"] if "--thorough" in flags else [])
        for tier in tiers:
            env = {"VERIF_REPO": wt, "VERIF_OUT": os.path.join("/tmp/mut/eval", os.path.basename(out) + "-" + n), "VERIF_TIER": tier}
            rc, o = sh([os.path.join(V, "bin/check"), cid], cwd=V, env=env, timeout=7200)
            keys = re.findall(r"violation key: (\S+)", o)
            res["checks"]["%s/%s" % (cid, tier)] = {"rc": rc, "keys": keys[:6], "last": o.strip().splitlines()[-1][-120:] if o.strip() else ""}
            if rc == 1: break
    sh("git checkout -- . && git clean -fdq -e _b", cwd=wt)
    if "--skip-confirm" not in flags:
        build()
        res["demo_clean"] = run_demo()
    sh("rm -rf _b", cwd=wt)
    print(json.dumps(res))
main()
