#!/usr/bin/env python3
"""Rewrites the block between <!-- SEEDED-TABLE-BEGIN --> and <!-- SEEDED-TABLE-END --> in DESIGN.md from seeded/*/meta.json."""
import json, os, re
V = os.path.dirname(os.path.dirname(os.path.abspath(__file__)))
rows = []
for name in sorted(os.listdir(V + "/seeded")):
    mp = os.path.join(V, "seeded", name, "meta.json")
    if not os.path.exists(mp):
        continue
    m = json.load(open(mp))
    notes = (m.get("what_it_needs_to_manifest") or "").replace("\n", " ")
    first = re.split(r"(?<=[.;])\s", notes)[0][:150]
    caught = ", ".join(m["caught_by"]) or "—"
    keys = []
    for c in m["caught_by"]:
        keys += m["checks_run"][c]["violation_keys"][:1]
    missed = ", ".join(k for k in m.get("missed_by", []) if k.split("/")[0] not in [c.split("/")[0] for c in m["caught_by"]])
    rows.append("| `%s` | %s | %s | %s | %s |" % (name, m["property"], caught, "; ".join("`%s`" % k for k in keys[:2]), missed or ""))
table = ["| seeded change (`/verif/seeded/<name>/`) | made for | caught by | first violation key(s) | ran silent (other property's check) |", "|---|---|---|---|---|"] + rows
p = V + "/DESIGN.md"
s = open(p).read()
b, e = "<!-- SEEDED-TABLE-BEGIN -->", "<!-- SEEDED-TABLE-END -->"
s = s[:s.index(b) + len(b)] + "\n" + "\n".join(table) + "\n" + s[s.index(e):]
open(p, "w").write(s)
print(len(rows), "rows")
