"""Engine core: builds from /repo's working tree, parallel batch runner, verdicts, evidence.

Everything here is stdlib-only Python 3.  All scratch output lives in a mkdtemp directory outside
/repo and /verif that is removed on exit.
"""
import atexit, glob, hashlib, json, os, re, shutil, signal, subprocess, sys, tempfile, time
from concurrent.futures import ThreadPoolExecutor

VERIF = os.path.dirname(os.path.dirname(os.path.abspath(__file__)))
REPO = os.environ.get("VERIF_REPO", "/repo")
# Mutant evaluation in scratch worktrees: evidence/replays of such runs must not clobber the real ones.
OUTDIR = os.environ.get("VERIF_OUT", VERIF)
NCPU = min(16, os.cpu_count() or 4)
GUARD = "RWEATHER_TINYJAMBU_VERIF"

# Sanitizer policy (DESIGN 0 / 2.4): permitted NULL/0 calls are not findings.
SAN_ASAN = ["-fsanitize=address,undefined", "-fno-sanitize-recover=all", "-fno-sanitize=nonnull-attribute",
            "-fno-omit-frame-pointer", "-g"]


def asan_flags(cc, opt="-O1"):
    f = [opt] + SAN_ASAN
    if cc.startswith("clang"):
        f += ["-fno-sanitize=pointer-overflow"]
    return f


def msan_flags(opt="-O1"):
    return [opt] + SAN_MSAN

SAN_MSAN = ["-fsanitize=memory", "-fsanitize-memory-track-origins", "-fno-omit-frame-pointer", "-g"]
SAN_TSAN = ["-fsanitize=thread", "-g", "-fno-omit-frame-pointer"]

SAN_ENV = {
    "ASAN_OPTIONS": "abort_on_error=1:detect_leaks=0:detect_stack_use_after_return=1:allocator_may_return_null=1:handle_abort=0",
    "UBSAN_OPTIONS": "print_stacktrace=1:halt_on_error=1:abort_on_error=1",
    "MSAN_OPTIONS": "abort_on_error=1:halt_on_error=1",
}


class Inconclusive(Exception):
    pass


def _sh(cmd, cwd=None, env=None, timeout=600, check=True, inp=None):
    e = dict(os.environ)
    if env:
        e.update(env)
    p = subprocess.run(cmd, cwd=cwd, env=e, stdout=subprocess.PIPE, stderr=subprocess.PIPE, timeout=timeout,
                       input=inp)
    if check and p.returncode != 0:
        raise Inconclusive("command failed (%d): %s\n%s\n%s" % (
            p.returncode, " ".join(cmd), p.stdout.decode(errors="replace")[-3000:], p.stderr.decode(errors="replace")[-3000:]))
    return p


class Ctx:
    def __init__(self, pid, level):
        self.pid = pid
        self.level = level
        self.tier = os.environ.get("VERIF_TIER", "quick")
        try:
            self.seed = int(os.environ.get("VERIF_SEED", "1"))
        except ValueError:
            self.seed = 1
        self.t0 = time.time()
        self.scratch = tempfile.mkdtemp(prefix="tjv-%s-" % pid)
        atexit.register(self._cleanup)
        self.stats = {}
        self.maxes = {}
        self.classes = set()
        self.samples = []
        self.viol = {}           # key -> descriptor
        self.viol_count = 0
        self.builds = []
        self.assumptions = []
        self.info = []
        self.rule = ""
        self.exhaustive = None
        self.inconclusive = []
        self.extra_cov = {}
        self._cfg = None
        self._prod = {}
        self._libs = {}
        self._model = None
        self.replay = None

    # ------------------------------------------------------------------ housekeeping
    def _cleanup(self):
        shutil.rmtree(self.scratch, ignore_errors=True)

    @property
    def thorough(self):
        return self.tier == "thorough"

    def q(self, quick, thorough):
        return thorough if self.thorough else quick

    def sh(self, cmd, **kw):
        return _sh(cmd, **kw)

    def log(self, msg):
        print("[%s %6.1fs] %s" % (self.pid, time.time() - self.t0, msg), flush=True)

    # ------------------------------------------------------------------ builds
    def sources(self):
        src = sorted(glob.glob(REPO + "/src/*.c") + glob.glob(REPO + "/src/backend/*.c") + glob.glob(REPO + "/src/random/*.c"))
        if len(src) < 15:
            raise Inconclusive("unexpected source layout in %s (%d .c files)" % (REPO, len(src)))
        return src

    def cfg_dir(self):
        """Runs cmake configure on the working tree once; returns the dir holding the real config.h."""
        if self._cfg is None:
            d = os.path.join(self.scratch, "prod")
            _sh(["cmake", "-S", REPO, "-B", d, "-G", "Ninja", "-DCMAKE_BUILD_TYPE=Release"], timeout=300)
            if not os.path.exists(os.path.join(d, "config.h")):
                raise Inconclusive("cmake did not produce config.h")
            self._cfg = d
        return self._cfg

    def prod(self):
        """The libraries exactly as the project's own build system makes them (Release, -O3)."""
        if not self._prod:
            d = self.cfg_dir()
            _sh(["cmake", "--build", d, "--target", "tinyjambu", "tinyjambu_static", "-j", str(NCPU)], timeout=600)
            st = os.path.join(d, "src", "libtinyjambu_static.a")
            so = os.path.join(d, "src", "libtinyjambu.so")
            if not (os.path.exists(st) and os.path.exists(so)):
                raise Inconclusive("cmake build did not produce the libraries")
            self._prod = {"static": st, "shared": so, "sodir": os.path.join(d, "src"), "name": "cmake-Release(-O3)"}
            self.builds.append("cmake Release: libtinyjambu_static.a + libtinyjambu.so (project flags -O3)")
        return self._prod

    def make_config(self, name, defines):
        """Writes an alternative config.h (list of macro names) into scratch; returns its directory."""
        d = os.path.join(self.scratch, "cfg-" + name)
        os.makedirs(d, exist_ok=True)
        with open(os.path.join(d, "config.h"), "w") as f:
            for m in defines:
                f.write("#define %s\n" % m)
        return d

    def lib(self, name, cc="gcc", flags=("-O2",), cfg=None, extra_defs=(), only=None, pre_include=None):
        """Compiles the library sources of the working tree directly with the given compiler/flags."""
        key = name
        if key in self._libs:
            return self._libs[key]
        d = os.path.join(self.scratch, "lib-" + name)
        os.makedirs(d, exist_ok=True)
        cfgd = cfg or self.cfg_dir()
        srcs = self.sources()
        if only:
            srcs = [s for s in srcs if os.path.basename(s) in only]
        base = [cc, "-c", "-std=gnu99", "-DHAVE_CONFIG_H", "-D" + GUARD, "-I" + cfgd, "-I" + REPO + "/src", "-fPIC"]
        base += [f for f in flags if f] + ["-D" + x for x in extra_defs]
        if pre_include:
            base += ["-include", pre_include]

        def one(s):
            o = os.path.join(d, os.path.basename(s)[:-2] + ".o")
            _sh(base + [s, "-o", o], timeout=300)
            return o
        with ThreadPoolExecutor(NCPU) as ex:
            objs = list(ex.map(one, srcs))
        ar = os.path.join(d, "lib%s.a" % name)
        _sh(["ar", "rcs", ar] + objs)
        self._libs[key] = {"static": ar, "objs": objs, "name": name, "cc": cc, "flags": list(flags), "dir": d}
        self.builds.append("%s: %s %s%s" % (name, cc, " ".join(f for f in flags if f),
                                          (" [config.h: %s]" % " ".join(l.split()[1] for l in open(os.path.join(cfg, "config.h")) if l.startswith("#define"))) if cfg else ""))
        return self._libs[key]

    def model_obj(self, cc="gcc", flags=()):
        """The reference model; instrumented like the harness when the harness runs under MSan/TSan
        (an uninstrumented model would make every oracle value look uninitialised to MSan)."""
        inst = [f for f in flags if f.startswith("-fsanitize=memory") or f.startswith("-fsanitize-memory") or f == "-fsanitize=thread"]
        tag = "plain" if not inst else (cc + "-" + "".join(c for c in "".join(inst) if c.isalnum()))
        d = os.path.join(self.scratch, "model-" + tag)
        o = os.path.join(d, "model.o")
        if not os.path.exists(o):
            os.makedirs(d, exist_ok=True)
            _sh([cc if inst else "gcc", "-c", "-O2", "-g"] + inst + [VERIF + "/model/model.c", "-o", o])
        return o

    def model_selfcheck(self):
        """The oracle must reproduce the pinned vectors, otherwise nothing it says is believed."""
        if self._model:
            return
        exe = os.path.join(self.scratch, "selfcheck")
        _sh(["gcc", "-O2", "-o", exe, VERIF + "/model/selfcheck.c", VERIF + "/model/model.c"])
        p = _sh([exe, VERIF + "/model/pinned/vectors.txt"], check=False)
        if p.returncode != 0:
            raise Inconclusive("reference model failed its self-check:\n" + p.stdout.decode() + p.stderr.decode())
        self._model = p.stdout.decode().strip()
        self.assumptions.append("reference model pinned to KAT vectors of commit 5a6d54e: " + self._model)

    def harness(self, name, src, lib, cc=None, flags=(), ldflags=(), extra=(), with_model=True, defs=()):
        """Builds harness `src` (path relative to /verif/harness) against a library variant."""
        cc = cc or (lib.get("cc") if lib else None) or "gcc"
        exe = os.path.join(self.scratch, "h-" + name)
        cmd = [cc, "-std=gnu11", "-O1", "-g", "-Wall", "-I" + VERIF + "/harness", "-I" + VERIF + "/model", "-I" + REPO + "/src",
               "-D" + GUARD] + ["-D" + x for x in defs] + [f for f in flags if f]
        cmd += [os.path.join(VERIF, "harness", src)] + [os.path.join(VERIF, "harness", e) for e in extra]
        if with_model:
            cmd.append(self.model_obj(cc, flags))
        if lib:
            cmd.append(lib["static"])
        cmd += list(ldflags) + ["-o", exe, "-lpthread"]
        _sh(cmd, timeout=300)
        return exe

    # ------------------------------------------------------------------ running
    def run_jobs(self, jobs, timeout=900, parse=True, workers=NCPU):
        """jobs: list of dict(cmd=[...], env={}, tag=str).  Runs them in parallel, parses the line protocol.
        A timeout triggers one re-run; a second timeout is inconclusive (never a violation)."""
        def run1(job):
            env = dict(os.environ)
            env.update(SAN_ENV)
            env.update(job.get("env") or {})
            for attempt in (0, 1):
                try:
                    t = time.time()
                    # own process group, so that a watchdog kill takes the job's own children (forked cases, valgrind,
                    # traced programs) with it
                    pp = subprocess.Popen(job["cmd"], env=env, stdout=subprocess.PIPE, stderr=subprocess.PIPE, cwd=job.get("cwd"),
                                          start_new_session=True)
                    try:
                        so, se = pp.communicate(timeout=job.get("timeout", timeout))
                    except subprocess.TimeoutExpired:
                        try:
                            os.killpg(pp.pid, signal.SIGKILL)
                        except OSError:
                            pass
                        pp.communicate()
                        raise
                    return job, pp.returncode, so.decode(errors="replace"), se.decode(errors="replace"), time.time() - t
                except subprocess.TimeoutExpired:
                    if attempt == 1:
                        return job, None, "", "watchdog", 0.0
        with ThreadPoolExecutor(workers) as ex:
            results = list(ex.map(run1, jobs))
        if parse:
            for r in results:
                self._parse(*r)
        return results

    def _parse(self, job, rc, out, err, dt):
        tag = job.get("tag", "")
        if rc is None:
            self.inconclusive.append("watchdog fired twice for %s" % tag)
            return
        done = False
        crashed = None
        for line in out.splitlines():
            if not line:
                continue
            c = line[0]
            if line == "DONE":
                done = True
            elif c == "S" and line[1] == " ":
                _, n, v = line.split(" ", 2)
                self.stats[n] = self.stats.get(n, 0) + int(v)
            elif c == "M" and line[1] == " ":
                _, n, v = line.split(" ", 2)
                self.maxes[n] = max(self.maxes.get(n, 0), int(v))
            elif c == "K" and line[1] == " ":
                for h in line.split()[1:]:
                    self.classes.add(int(h, 16))
            elif c == "E" and line[1] == " ":
                if len(self.samples) < 12:
                    self.samples.append(_j(line[2:]))
            elif c == "V" and line[1] == " ":
                _, key, rest = line.split(" ", 2)
                self.violation(key, {"build": tag, "cmd": job["cmd"], "detail": _j(rest)})
            elif c == "X" and line[1] == " ":
                _, sig, rest = line.split(" ", 2)
                crashed = (sig, rest)
            elif c == "I" and line[1] == " ":
                if len(self.info) < 40:
                    self.info.append(line[2:])
        if crashed or (rc != 0 and not done):
            if rc == 2 and not crashed:
                self.inconclusive.append("harness failure in %s: %s" % (tag, err[-800:]))
                return
            kind = san_kind(err)
            sig = crashed[0] if crashed else ("rc%d" % rc)
            key = "%s:%s" % (kind or ("crash-sig" + sig), os.path.basename(job["cmd"][0]).replace("h-", ""))
            self.violation(key, {"build": tag, "cmd": job["cmd"], "case": _j(crashed[1]) if crashed else None,
                                 "report": err[-6000:]})
        elif not done:
            self.inconclusive.append("%s ended without DONE (rc=%s): %s" % (tag, rc, err[-500:]))

    # ------------------------------------------------------------------ verdicts
    def violation(self, key, desc):
        self.viol_count += 1
        if key not in self.viol:
            self.viol[key] = desc

    def add_classes(self, it):
        for k in it:
            self.classes.add(k if isinstance(k, int) else int(hashlib.sha1(repr(k).encode()).hexdigest()[:15], 16))

    def count(self, name, n=1):
        self.stats[name] = self.stats.get(name, 0) + n

    def finish(self, evaluations_key="evaluations", floor=None):
        wall = time.time() - self.t0
        known = load_known()
        exit_code = 0
        printed = []
        os.makedirs(OUTDIR + "/replays", exist_ok=True)
        for key, desc in sorted(self.viol.items()):
            kf = match_known(known, self.pid, key)
            if kf:
                printed.append("KNOWN-FINDING: property=%s %s" % (self.pid, kf["what"]))
                continue
            h = hashlib.sha1((self.pid + key).encode()).hexdigest()[:10]
            path = "%s/replays/%s-%s.json" % (OUTDIR, self.pid, h)
            with open(path, "w") as f:
                json.dump({"property": self.pid, "key": key, "seed": self.seed, "tier": self.tier, "descriptor": desc}, f, indent=1, default=str)
            printed.append("VIOLATION property=%s replay=%s" % (self.pid, path))
            print("  violation key: %s" % key)
            d = desc.get("detail") if isinstance(desc, dict) else None
            if d:
                print("  " + json.dumps(d, default=str)[:1500])
            if isinstance(desc, dict) and desc.get("report"):
                print("  report tail:\n" + "\n".join("    " + l for l in desc["report"].splitlines()[-25:]))
            exit_code = 1
        evals = int(self.stats.get(evaluations_key, 0))
        if floor is not None and evals < floor and self.replay is None:
            self.inconclusive.append("monitor observed %d evaluations, below its floor %d" % (evals, floor))
        if self.inconclusive and exit_code == 0:
            exit_code = 2
        cov = {
            "evaluations": evals,
            "distinct_nontrivial": len(self.classes),
            "rule": self.rule,
            "samples": self.samples[:12] if self.samples else [],
            "counters": {k: v for k, v in sorted(self.stats.items())},
            "maxima": {k: v for k, v in sorted(self.maxes.items())},
            "builds": self.builds,
            "notes": self.info[:40],
            "violation_keys": sorted(self.viol.keys()),
            "inconclusive": self.inconclusive,
        }
        if self.exhaustive is not None:
            cov["exhaustive"] = bool(self.exhaustive)
        cov.update(self.extra_cov)
        ev = {"property_id": self.pid, "tier": self.tier, "seed": self.seed, "level": self.level,
              "coverage": cov, "assumptions": self.assumptions, "wall_s": round(wall, 2),
              "violations": len([p for p in printed if p.startswith("VIOLATION")])}
        if self.replay is None:
            os.makedirs(OUTDIR + "/evidence", exist_ok=True)
            tmp = "%s/evidence/.%s.tmp" % (OUTDIR, self.pid)
            with open(tmp, "w") as f:
                json.dump(ev, f, indent=1, default=str)
            os.replace(tmp, "%s/evidence/%s.json" % (OUTDIR, self.pid))
        for l in printed:
            print(l)
        for l in self.inconclusive:
            print("INCONCLUSIVE: " + l)
        print("[%s] tier=%s seed=%d evaluations=%d distinct=%d violations=%d wall=%.1fs -> exit %d" % (
            self.pid, self.tier, self.seed, evals, len(self.classes), ev["violations"], wall, exit_code), flush=True)
        return exit_code


def _j(s):
    try:
        return json.loads(s)
    except Exception:
        return s


_SAN_RE = re.compile(r"SUMMARY: (\w+Sanitizer): ([\w-]+)(?: [^ ]*?([\w.-]+\.[ch])[:\d]* in (\w+))?")
_UB_RE = re.compile(r"([\w./-]+\.[ch]):(\d+):\d+: runtime error: (.*)")


def san_kind(err):
    """Stable key for a sanitizer report: tool, bug class, function (no line numbers)."""
    m = _UB_RE.search(err)
    if m:
        what = re.sub(r"0x[0-9a-f]+|\d+", "N", m.group(3))[:60].strip().replace(" ", "_")
        return "ubsan:%s:%s" % (os.path.basename(m.group(1)), what)
    m = _SAN_RE.search(err)
    if m:
        return "%s:%s:%s" % (m.group(1).replace("Sanitizer", "san").lower(), m.group(2), m.group(4) or "?")
    return None


def load_known():
    p = VERIF + "/known_findings.json"
    try:
        with open(p) as f:
            return json.load(f)
    except FileNotFoundError:
        return {"known": [], "fixed": []}


def match_known(known, pid, key):
    for k in known.get("known", []):
        if k.get("property") == pid and re.fullmatch(k.get("key_regex", "$^"), key):
            return k
    return None


def main(pid, level, fn):
    """Entry used by bin/check: fn(ctx) performs the check; exit code per the verdict discipline."""
    ctx = Ctx(pid, level)
    try:
        fn(ctx)
        rc = ctx.finish(floor=getattr(fn, "floor", 1))
    except Inconclusive as e:
        print("INCONCLUSIVE: %s" % e)
        rc = 2
    except subprocess.TimeoutExpired as e:
        print("INCONCLUSIVE: build/tool watchdog: %s" % e)
        rc = 2
    sys.exit(rc)
