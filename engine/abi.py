"""ILP32 differential monitor (supplementary to the per-property checks, same verdict channel).

The sandbox has no 32-bit C library, but gcc/clang -m32 -ffreestanding produce i386 code and the kernel runs it.
harness/h_abi.c is built three ways: ORACLE (64-bit, calls the model), SUBJECT on ILP32 (the library's portable
sources compiled -m32 against harness/ilp32/rt32.c; size_t, pointers and unsigned long are 4 bytes; every buffer
abuts a PROT_NONE page) and SUBJECT on LP64 (control: the production archive through the same program).  The two
programs print one line per observation for the same deterministic case list; any differing line is a difference
between that build of the library and the specification, a missing tail is a crash.
"""
import os
from . import core
from .core import REPO, VERIF

INC = os.path.join(VERIF, "harness", "ilp32", "include")
CFG32 = ["HAVE_STRINGS_H", "HAVE_EXPLICIT_BZERO", "HAVE_SYS_RANDOM_H", "HAVE_SYS_SYSCALL_H", "HAVE_UNISTD_H", "HAVE_FCNTL_H", "HAVE_GETRANDOM"]


def _subject32(ctx, tag, cc, flags, cfg):
    d = os.path.join(ctx.scratch, "abi-" + tag)
    if os.path.exists(os.path.join(d, "subject")):
        return os.path.join(d, "subject")
    os.makedirs(d, exist_ok=True)
    cfgd = ctx.make_config("ilp32-" + tag, cfg)
    # -nostdinc: only the compiler's own freestanding headers (stdint.h, stddef.h, limits.h) and the shims are visible;
    # the host's /usr/include belongs to a different ABI and must not be picked up by __has_include or by accident
    if cc == "gcc":
        cinc = ctx.sh(["gcc", "-m32", "-print-file-name=include"]).stdout.decode().strip()
    else:
        cinc = os.path.join(ctx.sh(["clang", "-print-resource-dir"]).stdout.decode().strip(), "include")
    base = [cc, "-m32", "-std=gnu99", "-ffreestanding", "-nostdinc", "-fno-stack-protector", "-fno-pie", "-DHAVE_CONFIG_H", "-D" + core.GUARD,
            "-I" + cfgd, "-isystem", INC, "-isystem", cinc, "-I" + REPO + "/src"] + list(flags)
    objs = []
    from concurrent.futures import ThreadPoolExecutor

    def one(s):
        o = os.path.join(d, os.path.basename(s)[:-2] + ".o")
        ctx.sh(base + ["-c", s, "-o", o], timeout=300)
        return o
    srcs = [s for s in ctx.sources() if "/random/" not in s or s.endswith("tinyjambu-trng-dev-random.c")]
    with ThreadPoolExecutor(core.NCPU) as ex:
        objs = list(ex.map(one, srcs))
    rt = os.path.join(d, "rt32.o")
    ctx.sh(["gcc", "-m32", "-O1", "-ffreestanding", "-fno-builtin", "-fno-tree-loop-distribute-patterns", "-fno-stack-protector", "-fno-pie",
            "-c", os.path.join(VERIF, "harness", "ilp32", "rt32.c"), "-o", rt])
    h = os.path.join(d, "h_abi.o")
    ctx.sh(["gcc", "-m32", "-O1", "-ffreestanding", "-fno-stack-protector", "-fno-pie", "-DABI_SUBJECT", "-DABI_FREESTANDING",
            "-isystem", INC, "-I" + REPO + "/src", "-c", os.path.join(VERIF, "harness", "h_abi.c"), "-o", h])
    exe = os.path.join(d, "subject")
    ctx.sh(["gcc", "-m32", "-nostdlib", "-static", "-no-pie", "-o", exe, h, rt] + objs)
    ctx.builds.append("ILP32 %s: %s -m32 %s (freestanding, harness/ilp32 runtime), config.h = %s" % (tag, cc, " ".join(flags), " ".join(cfg)))
    return exe


def subjects(ctx):
    nobz = [m for m in CFG32 if m != "HAVE_EXPLICIT_BZERO"]
    out = [("ilp32-gcc-O2", "gcc", ["-O2"], CFG32),
           ("ilp32-clang-O2", "clang", ["-O2"], CFG32),
           ("ilp32-gcc-Os-builtin-nobzero", "gcc", ["-Os", "-fbuiltin"], nobz)]
    if ctx.thorough:
        out += [("ilp32-gcc-O0", "gcc", ["-O0"], CFG32), ("ilp32-gcc-O3", "gcc", ["-O3", "-fbuiltin"], CFG32),
                ("ilp32-gcc-O2-i386", "gcc", ["-O2", "-march=i386"], CFG32),
                ("ilp32-clang-O0", "clang", ["-O0"], nobz), ("ilp32-clang-Os", "clang", ["-Os"], CFG32),
                ("ilp32-gcc-O2-c99-uchar", "gcc", ["-O2", "-std=c99", "-w", "-funsigned-char", "-DNDEBUG"], CFG32)]
    return out


def ilp32_monitor(ctx, sections, memcheck=False):
    """Runs the sections on the oracle and on every subject; reports differing lines / crashes as violations."""
    rp = ctx.replay
    if rp and not (rp.get("build") or "").startswith(("ilp32-", "lp64-control")):
        return
    d = os.path.join(ctx.scratch, "abi")
    os.makedirs(d, exist_ok=True)
    oracle = os.path.join(d, "oracle")
    if not os.path.exists(oracle):
        ctx.sh(["gcc", "-O2", "-I" + VERIF + "/model", os.path.join(VERIF, "harness", "h_abi.c"), ctx.model_obj("gcc", []), "-o", oracle])
    subs = []
    for tag, cc, fl, cfg in subjects(ctx):
        if rp and rp.get("build") != tag:
            continue
        try:
            subs.append((tag, _subject32(ctx, tag, cc, fl, cfg)))
        except core.Inconclusive as e:
            # the shim environment is not a full 32-bit sysroot: sources that need more than it offers cannot be built for
            # ILP32 here.  That is a limit of this supplementary monitor, not a verdict; the rest of the check decides.
            ctx.count("ilp32_builds_not_possible", 1)
            if len(ctx.info) < 40:
                ctx.info.append("ILP32 build %s not possible in the shim environment: %s" % (tag, str(e)[-400:].replace("\n", " | ")))
    if not rp or rp.get("build") == "lp64-control":
        ctl = os.path.join(d, "control")
        if not os.path.exists(ctl):
            ctx.sh(["gcc", "-O2", "-DABI_SUBJECT", "-I" + REPO + "/src", os.path.join(VERIF, "harness", "h_abi.c"), ctx.prod()["static"], "-o", ctl])
        subs.append(("lp64-control", ctl))
    args = ["--seed", str(ctx.seed)] + (["--thorough"] if ctx.thorough else [])
    if rp and rp.get("index") is not None:
        args += ["--only", str(rp["index"])]
    jobs = []
    for sec in sections:
        jobs.append({"cmd": [oracle, "--section", sec] + args, "tag": "oracle", "sec": sec})
        for tag, exe in subs:
            jobs.append({"cmd": [exe, "--section", sec] + args, "tag": tag, "sec": sec})
            if memcheck and tag.startswith("ilp32-") and not rp:
                jobs.append({"cmd": ["valgrind", "-q", "--error-exitcode=99", "--expensive-definedness-checks=yes", exe, "--section", sec] + args[:2],
                             "tag": tag + "+memcheck-x86", "sec": sec})
    res = ctx.run_jobs(jobs, timeout=3000, parse=False)
    by = {}
    for job, rc, out, err, dt in res:
        if rc is None:
            ctx.inconclusive.append("watchdog fired twice for h_abi %s/%s" % (job["tag"], job["sec"]))
            continue
        by[(job["tag"], job["sec"])] = (rc, out.splitlines(), err, job)
    for sec in sections:
        o = by.get(("oracle", sec))
        if not o or o[0] != 0 or not o[1] or not o[1][-1].startswith("DONE"):
            ctx.inconclusive.append("h_abi oracle failed for section %s: %s" % (sec, (o[2][-300:] if o else "")))
            continue
        olines = [l for l in o[1] if not l.startswith("H ")]
        for (tag, s2), (rc, lines, err, job) in sorted(by.items()):
            if s2 != sec or tag == "oracle":
                continue
            hdr = [l for l in lines if l.startswith("H ")]
            lines = [l for l in lines if not l.startswith("H ")]
            if tag.startswith("ilp32-") and not (hdr and "sizeof_size_t=4 sizeof_pointer=4 sizeof_long=4" in hdr[0]):
                ctx.inconclusive.append("h_abi %s does not report an ILP32 data model: %s" % (tag, hdr[:1]))
                continue
            if "+memcheck" in tag:
                # the memcheck runs use the quick case list in every tier (cost); their lines were already compared in the
                # plain run of the same binary, so only valgrind's verdict and the completion of the run count here
                if rc == 99:
                    ctx.violation("ilp32-memcheck:%s" % sec, {"build": tag, "cmd": job["cmd"], "report": err[-5000:]})
                elif rc != 0 or not lines or not lines[-1].startswith("DONE"):
                    ctx.violation("abi-crash:%s" % sec, {"build": tag, "cmd": job["cmd"], "detail": "exit status %s under valgrind after %d lines; last line: %s" % (rc, len(lines), (lines[-1] if lines else "")[:200]), "report": err[-2000:]})
                else:
                    ctx.count("abi_lines_run_under_memcheck_x86", len(lines))
                continue
            if any(l.startswith("E ") for l in lines) or rc == 2:
                ctx.inconclusive.append("h_abi harness failure in %s/%s: %s" % (tag, sec, [l for l in lines if l.startswith("E ")][:1]))
                continue
            n = 0
            bad = None
            for a, b in zip(olines, lines):
                if a != b:
                    bad = (a, b)
                    break
                n += 1
            ctx.count("abi_lines_compared", n)
            if "+memcheck" not in tag:
                ctx.count("evaluations", n)
                ctx.count("abi_lines_compared_" + tag.replace("-", "_"), n)
            ctx.add_classes(("abi", tag, sec, i // 7) for i in range(0, n, 7))
            if bad is None and len(lines) == len(olines):
                if len(ctx.samples) < 12 and n > 3:
                    ctx.samples.append({"h": "abi", "build": tag, "section": sec, "lines_equal": n, "example_line": lines[min(n - 2, 5)][:160]})
                continue
            if bad is None:        # one output is a prefix of the other: the subject stopped early (or went on)
                last = lines[-1] if lines else "(no output)"
                idx = int(last.split()[0]) if last.split() and last.split()[0].isdigit() else None
                ctx.violation("abi-crash:%s" % sec, {"build": tag, "cmd": job["cmd"], "case": {"i": idx, "section": sec},
                                                     "detail": "exit status %s after %d of %d lines; last line: %s; next expected: %s"
                                                     % (rc, len(lines), len(olines), last[:200], olines[len(lines)][:200] if len(lines) < len(olines) else "-"),
                                                     "report": err[-2000:]})
                continue
            what = bad[0].split()[2] if len(bad[0].split()) > 2 else "?"
            idx = int(bad[0].split()[0]) if bad[0].split()[0].isdigit() else None
            ctx.violation("abi-mismatch:%s:%s" % (sec, what), {"build": tag, "cmd": job["cmd"], "case": {"i": idx, "section": sec},
                                                              "detail": {"expected_by_model": bad[0][:600], "library_build_printed": bad[1][:600]}})
