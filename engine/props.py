"""Per-property checks.  Each function builds what it needs from /repo's working tree, drives the
harnesses, and leaves counters / classes / violations in the Ctx (engine/core.py)."""
import os
from . import core
from .core import asan_flags, msan_flags, NCPU, VERIF, REPO

REPLAY = {}
CHECKS = {}


def check(pid, level, floor=1):
    def deco(fn):
        fn.floor = floor
        CHECKS[pid] = (level, fn)
        return fn
    return deco


# ---------------------------------------------------------------------------------- build sets

def build_set(ctx, names):
    """names: list of build names -> list of dict(tag, lib, cc, hflags)."""
    out = []
    for n in names:
        if n == "prod":
            p = ctx.prod()
            out.append({"tag": "prod-cmake-Release", "lib": {"static": p["static"]}, "cc": "gcc", "hflags": []})
        elif n.startswith("asan-"):
            cc = n.split("-")[1]
            opt = "-" + n.split("-")[2] if n.count("-") >= 2 else "-O1"
            fl = asan_flags(cc, opt)
            out.append({"tag": n, "lib": ctx.lib(n, cc, fl), "cc": cc, "hflags": fl})
        elif n.startswith("msan"):
            fl = msan_flags("-O1")
            out.append({"tag": n, "lib": ctx.lib(n, "clang", fl), "cc": "clang", "hflags": fl})
        else:
            cc, opt = n.split("-", 1)
            out.append({"tag": n, "lib": ctx.lib(n, cc, ["-" + opt]), "cc": cc, "hflags": []})
    return out


MATRIX = ["gcc-O0", "gcc-O1", "gcc-O2", "gcc-O3", "gcc-Os", "clang-O0", "clang-O1", "clang-O2", "clang-O3", "clang-Os"]


def batch_jobs(ctx, exe, tag, args, nb):
    jobs = []
    base = [exe, "--seed", str(ctx.seed)] + (["--thorough"] if ctx.thorough else []) + [str(a) for a in args]
    rp = ctx.replay
    if rp:
        if rp.get("build") and rp["build"] != tag:
            return []
        if rp.get("index") is not None:
            return [{"cmd": base + ["--only", str(rp["index"])], "tag": tag}]
    for b in range(nb):
        jobs.append({"cmd": base + ["--batch", str(b), "--nbatches", str(nb)], "tag": tag})
    return jobs


def load_replay(ctx):
    import json
    path = REPLAY.get("path")
    if not path:
        return
    with open(path) as f:
        r = json.load(f)
    d = r.get("descriptor") or {}
    idx = None
    for c in (d.get("case"), (d.get("detail") or {}).get("case") if isinstance(d.get("detail"), dict) else None):
        if isinstance(c, dict) and "i" in c:
            idx = c["i"]
    ctx.replay = {"build": d.get("build"), "index": idx, "key": r.get("key")}
    ctx.seed = int(r.get("seed", ctx.seed))
    ctx.tier = r.get("tier", ctx.tier)
    ctx.log("replaying %s (build=%s case=%s seed=%d tier=%s)" % (r.get("key"), d.get("build"), idx, ctx.seed, ctx.tier))


def run_harness_on(ctx, src, builds, args, nb, hname=None, timeout=900, extra=(), defs=(), ldflags=()):
    jobs = []
    for b in builds:
        exe = ctx.harness((hname or src[:-2]) + "-" + b["tag"], src, b["lib"], cc=b["cc"], flags=b["hflags"],
                          extra=extra, defs=defs, ldflags=ldflags)
        jobs += batch_jobs(ctx, exe, b["tag"], args, nb)
    ctx.run_jobs(jobs, timeout=timeout)


# ---------------------------------------------------------------------------------- C01

AEAD_RULE = ("cases enumerate (variant, adlen, mlen) exhaustively over the window [0..W]^2 x repetitions; key/nonce/AD/"
             "plaintext bytes derive from (VERIF_SEED, case index) and cycle through 6 byte classes; buffer placement "
             "(end-guard / start-guard / mid+canary), alignment offsets 0..7 and aliasing mode rotate with the index. "
             "A case class = (variant, adlen, mlen | long-bucket, byte class, aliasing, placement of c and m); "
             "distinct_nontrivial counts distinct classes visited by at least one build.")


@check("C01", "exploration", floor=1000)
def c01(ctx):
    load_replay(ctx)
    ctx.model_selfcheck()
    W, R, NL = ctx.q((24, 4, 12), (70, 16, 120))
    builds = build_set(ctx, ctx.q(["prod", "gcc-O2", "asan-gcc"], ["prod"] + MATRIX + ["asan-gcc", "asan-clang"]))
    run_harness_on(ctx, "h_aead.c", builds, ["--mode", "rt", "--p1", W, "--p2", R, "--p3", NL], ctx.q(6, 16))
    ctx.rule = AEAD_RULE + " Battery: encrypt -> length check -> decrypt (separate and in-place) -> compare; in-place encrypt == out-of-place."
    ctx.exhaustive = False
    ctx.assumptions += ["overlapping-but-not-identical buffers are outside the contract and never generated",
                        "contents and lengths above the window are sampled"]


# ---------------------------------------------------------------------------------- C02

@check("C02", "exploration", floor=1000)
def c02(ctx):
    load_replay(ctx)
    ctx.model_selfcheck()
    W, R, NL = ctx.q((32, 4, 16), (70, 12, 150))
    builds = build_set(ctx, ctx.q(["prod", "gcc-O0", "gcc-O2", "clang-O2", "clang-O3", "asan-gcc"],
                                  ["prod"] + MATRIX + ["asan-gcc", "asan-clang"]))
    # same seed and same case list for every build: build-independence = all of them equal the model
    run_harness_on(ctx, "h_aead.c", builds, ["--mode", "model", "--p1", W, "--p2", R, "--p3", NL], ctx.q(4, 16))
    # the shared object as shipped
    p = ctx.prod()
    exe = ctx.harness("h_aead-prod-shared", "h_aead.c", None, cc="gcc", ldflags=["-L" + p["sodir"], "-ltinyjambu", "-Wl,-rpath," + p["sodir"]])
    ctx.run_jobs(batch_jobs(ctx, exe, "prod-cmake-Release-shared", ["--mode", "model", "--p1", W, "--p2", 1, "--p3", 4], 4))
    ctx.rule = AEAD_RULE + (" Oracle: bit-serial NLFSR model written from the specification (pinned to KATs); every case: library "
                            "ciphertext||tag == model, a second encryption is identical, the model's packet (foreign encryptor) opens to the model's plaintext.")
    ctx.exhaustive = False
    ctx.assumptions += ["a deviation keyed to one specific 32-bit word value would need ~2^32 samples",
                        "the model itself is anchored only by the pinned KAT vectors (bytes < 0x21, lengths <= 32) and by being a literal transcription of the specification"]


# ---------------------------------------------------------------------------------- C03

@check("C03", "exploration", floor=200)
def c03(ctx):
    load_replay(ctx)
    ctx.model_selfcheck()
    W, R, NL = ctx.q((14, 1, 6), (40, 2, 40))
    builds = build_set(ctx, ctx.q(["prod", "asan-gcc"], ["prod", "gcc-O2", "clang-O3", "asan-gcc", "asan-clang"]))
    run_harness_on(ctx, "h_aead.c", builds, ["--mode", "tamper", "--p1", W, "--p2", R, "--p3", NL], 16, timeout=3000)
    ctx.rule = AEAD_RULE + (" Per packet: valid, forged-valid (random body + model tag must be ACCEPTED), 64 tag bit flips, every "
                            "non-zero XOR delta in every tag byte, cancellation patterns (XOR-fold / additive / reversed / rotated / complemented-but-one), "
                            "bit flips in body / AD / nonce / key, truncation, extension, AD-message boundary shifts by 1..4, AD-body swap, clen 0..7; "
                            "expected verdict is exact: accept iff received tag == model tag for the model-recovered plaintext.")
    ctx.exhaustive = False
    ctx.assumptions += ["2^64-1 wrong tags per packet are sampled structurally, not enumerated"]


# ---------------------------------------------------------------------------------- C04

@check("C04", "exploration", floor=500)
def c04(ctx):
    load_replay(ctx)
    ctx.model_selfcheck()
    W, R, NL = ctx.q((20, 1, 40), (60, 2, 150))
    builds = build_set(ctx, ctx.q(["prod", "gcc-O2", "asan-gcc"], ["prod", "gcc-O2", "gcc-O3", "clang-O2", "clang-O3", "asan-gcc", "asan-clang"]))
    run_harness_on(ctx, "h_aead.c", builds, ["--mode", "zero,both", "--p1", W, "--p2", R, "--p3", NL], 16, timeout=3000)
    # dense length sweep 0..300 on the production object: one tag flip per length per variant
    run_harness_on(ctx, "h_aead.c", build_set(ctx, ["prod"]), ["--mode", "zero,both,sweep", "--p1", 0, "--p2", 1, "--p3", ctx.q(300, 1200)], 8,
                   hname="h_aead-sweep")
    ctx.rule = AEAD_RULE + (" All 6 variants; per packet up to 12 tamper sites (each tag byte, body, nonce, key, AD length), in place and "
                            "out of place, output region pre-filled with recorded non-zero junk; after every rejection every byte of "
                            "m[0..clen-8) is read back and must be zero; long packets up to 1 MiB (thorough: 16 MiB).")
    ctx.exhaustive = False


# ---------------------------------------------------------------------------------- C08

@check("C08", "exploration", floor=500)
def c08(ctx):
    load_replay(ctx)
    ctx.model_selfcheck()
    W, R, NL = ctx.q((24, 2, 12), (70, 8, 100))
    builds = build_set(ctx, ctx.q(["prod", "gcc-O2", "asan-gcc"], ["prod"] + MATRIX + ["asan-gcc", "asan-clang"]))
    run_harness_on(ctx, "h_aead.c", builds, ["--mode", "rt,siv", "--p1", W, "--p2", R, "--p3", NL], ctx.q(6, 16))
    W2, R2, NL2 = ctx.q((10, 1, 4), (28, 1, 30))
    builds2 = build_set(ctx, ctx.q(["prod", "asan-gcc"], ["prod", "clang-O3", "asan-gcc", "asan-clang"]))
    run_harness_on(ctx, "h_aead.c", builds2, ["--mode", "tamper,siv", "--p1", W2, "--p2", R2, "--p3", NL2], 16, hname="h_aead-t", timeout=3000)
    ctx.rule = AEAD_RULE + (" SIV variants. Round-trip battery (incl. in place) + tamper battery where every expected verdict comes from "
                            "the model of the SIV construction for arbitrary bodies and tags (a changed tag changes keystream and expected tag), "
                            "nonce bytes 0..3 and 4..11 flipped separately, clen 0..7.")
    ctx.exhaustive = False


# ---------------------------------------------------------------------------------- C09

@check("C09", "exploration", floor=1000)
def c09(ctx):
    load_replay(ctx)
    ctx.model_selfcheck()
    W, R, NL = ctx.q((32, 3, 16), (70, 10, 150))
    builds = build_set(ctx, ctx.q(["prod", "gcc-O2", "clang-O3", "asan-gcc"], ["prod"] + MATRIX + ["asan-gcc", "asan-clang"]))
    run_harness_on(ctx, "h_aead.c", builds, ["--mode", "model,pairs,siv", "--p1", W, "--p2", R, "--p3", NL], ctx.q(4, 16))
    # positive control: the same pair generator through plain AEAD must show related bodies
    run_harness_on(ctx, "h_aead.c", build_set(ctx, ["prod"]), ["--mode", "pairs", "--p1", W, "--p2", 1, "--p3", 0], 2, hname="h_aead-ctl")
    if not ctx.replay and ctx.stats.get("aead_control_pairs_related", 0) < 50:
        ctx.inconclusive.append("positive control (AEAD nonce-reuse pairs are related) observed too few pairs")
    if not ctx.replay and ctx.stats.get("siv_reuse_pairs", 0) < 200:
        ctx.inconclusive.append("too few SIV nonce-reuse pairs observed")
    sivref_second_opinion(ctx)
    ctx.rule = AEAD_RULE + (" SIV variants vs the model of the README two-pass construction (both directions, determinism), plus nonce-reuse pairs "
                            "(one bit / one byte / suffix of the message, one bit of the AD; mlen >= 8): tags differ and body1^body2 != m1^m2; "
                            "positive control: the same pairs through plain AEAD are related on the common prefix.")
    ctx.exhaustive = False
    ctx.assumptions += ["pair relations can coincide by chance with probability <= 2^-64 per pair"]


def sivref_second_opinion(ctx):
    """tools/sivref/encrypt-*.c compiled as is; disagreement between bundled reference and model is reported as such."""
    import glob
    d = os.path.join(ctx.scratch, "sivref")
    os.makedirs(d, exist_ok=True)
    objs = []
    for ks in (128, 192, 256):
        src = "%s/tools/sivref/encrypt-%d.c" % (REPO, ks)
        if not os.path.exists(src):
            ctx.info.append("tools/sivref/encrypt-%d.c not present: second opinion skipped" % ks)
            return
        o = os.path.join(d, "ref%d.o" % ks)
        ctx.sh(["gcc", "-c", "-O2", "-w", "-I" + REPO + "/tools/sivref", "-Dcrypto_aead_encrypt=sivref_%d_encrypt" % ks,
                "-Dcrypto_aead_decrypt=sivref_%d_decrypt" % ks, "-Dstate_update=sivref_%d_su" % ks,
                "-Dinitialization=sivref_%d_init" % ks, "-Dprocess_ad=sivref_%d_ad" % ks, src, "-o", o])
        # localize every other global so the three files can be linked together
        ctx.sh(["objcopy", "--keep-global-symbol=sivref_%d_encrypt" % ks, "--keep-global-symbol=sivref_%d_decrypt" % ks, o])
        objs.append(o)
    exe = os.path.join(d, "h_sivref")
    ctx.sh(["gcc", "-O1", "-g", "-I" + VERIF + "/harness", "-I" + VERIF + "/model", VERIF + "/harness/h_sivref.c", ctx.model_obj()] + objs + ["-o", exe])
    ctx.run_jobs(batch_jobs(ctx, exe, "sivref", ["--p1", ctx.q(40, 70), "--p2", ctx.q(1, 3)], 4))
