"""Per-property checks.  Each function builds what it needs from /repo's working tree, drives the
harnesses, and leaves counters / classes / violations in the Ctx (engine/core.py)."""
import os
from . import core
from . import abi
from .core import asan_flags, msan_flags, NCPU, VERIF, REPO

REPLAY = {}
CHECKS = {}


def check(pid, level, floor=1):
    def deco(fn):
        fn.floor = floor
        CHECKS[pid] = (level, fn)
        return fn
    return deco


# ---------------------------------------------------------------------------------- build sets

# three extra builds that together switch on every legitimate non-default code path that can run on this host
ALTS = ["gcc-O3+DNDEBUG+DTINYJAMBU_FORCE_C32",             # CMake's stock Release flags; the project's BACKEND_C32 option
        "gcc-O2+D__BIG_ENDIAN__@nobzero",                  # byte-order-neutral paths; volatile-loop wipe
        "clang-O2+std=c99+w+funsigned-char"]               # strict ISO C (no glibc extensions), the other signedness of char


def build_set(ctx, names):
    """names: list of build names -> list of dict(tag, lib, cc, hflags)."""
    out = []
    names = [x for n in names for x in (ALTS if n == "alts" else [n])]
    names = [n for i, n in enumerate(names) if n not in names[:i]]
    for n in names:
        if n == "prod":
            p = ctx.prod()
            out.append({"tag": "prod-cmake-Release", "lib": {"static": p["static"]}, "cc": "gcc", "hflags": []})
        elif n.startswith("asan-"):
            cc = n.split("-")[1]
            opt = "-" + n.split("-")[2] if n.count("-") >= 2 else "-O1"
            fl = asan_flags(cc, opt)
            out.append({"tag": n, "lib": ctx.lib(n, cc, fl), "cc": cc, "hflags": fl})
        elif n.startswith("msan"):
            fl = msan_flags("-O1")
            out.append({"tag": n, "lib": ctx.lib(n, "clang", fl), "cc": "clang", "hflags": fl})
        else:
            # "gcc-O2" or "gcc-O3+march=native+funsigned-char": extra flags after '+'
            # "...@nobzero": config.h without HAVE_EXPLICIT_BZERO (tinyjambu_clean's volatile-loop fallback)
            n0, _, cfgname = n.partition("@")
            base, *extra = n0.split("+")
            cc, opt = base.split("-", 1)
            hfl = ["-O2", "-flto"] + (["-fuse-ld=lld"] if cc == "clang" else []) if "flto" in extra else []
            cfg = None
            if cfgname == "nobzero":
                cfg = ctx.make_config("fallback", [m for m in BASE_CFG if m != "HAVE_EXPLICIT_BZERO"] + ["HAVE_GETRANDOM"])
            out.append({"tag": n, "lib": ctx.lib(n.replace("=", "_"), cc, ["-" + opt] + ["-" + e for e in extra], cfg=cfg), "cc": cc, "hflags": hfl})
    return out


MATRIX = ["gcc-O0", "gcc-O1", "gcc-O2", "gcc-O3", "gcc-Os", "clang-O0", "clang-O1", "clang-O2", "clang-O3", "clang-Os"]
# code-generation variants beyond the optimisation level: wide vector units, the other signedness of plain char
MATRIX_X = ["gcc-O2+D__BIG_ENDIAN__@nobzero", "clang-O2+D__BIG_ENDIAN__@nobzero",   # the byte-order-neutral code paths and the volatile-loop wipe
            "gcc-O3+march=native", "clang-O3+march=native", "gcc-O2+funsigned-char", "clang-O2+funsigned-char", "gcc-O2+fwrapv+fno-strict-aliasing",
            "gcc-O2+std=c99+w", "clang-O2+std=c99+w",        # strict ISO C language mode (CMAKE_C_EXTENSIONS=OFF)
            "gcc-O2+flto+ffat-lto-objects", "clang-O2+flto",   # whole-program optimisation across the library's translation units
            "gcc-O3+DNDEBUG", "clang-O3+DNDEBUG",              # CMake's stock Release flags: assert() compiled out
            "gcc-O2+DTINYJAMBU_FORCE_C32", "clang-O2+DTINYJAMBU_FORCE_C32"]   # the project's own cmake option BACKEND_C32=ON


SPECIAL = os.path.join(VERIF, "model", "pinned", "special.txt")


def run_special(ctx, src, builds, args, nb, hname, defs=(), ldflags=()):
    """Replays the corpus of rare-internal-value inputs (model/pinned/special.txt, searched with the model only: model/mine.c)
    through the harness's ordinary oracles."""
    jobs = []
    for b in builds:
        exe = ctx.harness(hname + "-" + b["tag"], src, b["lib"], cc=b["cc"], flags=b["hflags"], defs=defs, ldflags=ldflags)
        for j in batch_jobs(ctx, exe, b["tag"], args, nb):
            j["env"] = dict(j.get("env") or {}, VERIF_SPECIAL=SPECIAL)
            jobs.append(j)
    ctx.run_jobs(jobs, timeout=3000)


def batch_jobs(ctx, exe, tag, args, nb):
    jobs = []
    base = [exe, "--seed", str(ctx.seed)] + (["--thorough"] if ctx.thorough else []) + [str(a) for a in args]
    rp = ctx.replay
    if rp:
        if rp.get("build") and rp["build"] != tag:
            return []
        if rp.get("index") is not None:
            return [{"cmd": base + ["--only", str(rp["index"])] + (["--addr", str(rp["addr"])] if rp.get("addr") else []), "tag": tag}]
    for b in range(nb):
        jobs.append({"cmd": base + ["--batch", str(b), "--nbatches", str(nb)], "tag": tag})
    return jobs


def load_replay(ctx):
    import json
    path = REPLAY.get("path")
    if not path:
        return
    with open(path) as f:
        r = json.load(f)
    d = r.get("descriptor") or {}
    idx = addr = None
    for c in (d.get("case"), (d.get("detail") or {}).get("case") if isinstance(d.get("detail"), dict) else None):
        if isinstance(c, dict) and "i" in c:
            idx = c["i"]
            addr = c.get("addr")
    ctx.replay = {"build": d.get("build"), "index": idx, "key": r.get("key"), "addr": addr}
    ctx.seed = int(r.get("seed", ctx.seed))
    ctx.tier = r.get("tier", ctx.tier)
    ctx.log("replaying %s (build=%s case=%s seed=%d tier=%s)" % (r.get("key"), d.get("build"), idx, ctx.seed, ctx.tier))


def run_harness_on(ctx, src, builds, args, nb, hname=None, timeout=900, extra=(), defs=(), ldflags=()):
    jobs = []
    for b in builds:
        exe = ctx.harness((hname or src[:-2]) + "-" + b["tag"], src, b["lib"], cc=b["cc"], flags=b["hflags"],
                          extra=extra, defs=defs, ldflags=ldflags)
        jobs += batch_jobs(ctx, exe, b["tag"], args, nb)
    ctx.run_jobs(jobs, timeout=timeout)


# ---------------------------------------------------------------------------------- C01

AEAD_RULE = ("cases enumerate (variant, adlen, mlen) exhaustively over the window [0..W]^2 x repetitions; key/nonce/AD/"
             "plaintext bytes derive from (VERIF_SEED, case index) and cycle through 6 byte classes; buffer placement "
             "(end-guard / start-guard / mid+canary), alignment offsets 0..7 and aliasing mode rotate with the index. "
             "In some cases two inputs share memory (ad == m, nonce inside the key buffer). A case class = (variant, adlen, mlen | long-bucket, byte class, aliasing, placement of c and m); "
             "distinct_nontrivial counts distinct classes visited by at least one build.")


@check("C01", "exploration", floor=1000)
def c01(ctx):
    load_replay(ctx)
    ctx.model_selfcheck()
    W, R, NL = ctx.q((24, 4, 12), (70, 16, 120))
    builds = build_set(ctx, ctx.q(["prod", "gcc-O2", "clang-O2", "gcc-Os", "alts", "asan-gcc"], ["prod"] + MATRIX + MATRIX_X + ["asan-gcc", "asan-clang"]))
    run_harness_on(ctx, "h_aead.c", builds, ["--mode", "rt", "--p1", W, "--p2", R, "--p3", NL], ctx.q(6, 16))
    if ctx.thorough:
        # lengths >= 2^32: a 2^32+5 byte message encrypted and decrypted in place, each key size (exact round-trip oracle)
        run_harness_on(ctx, "h_aead.c", build_set(ctx, ["prod"]), ["--mode", "rt,hugemsg"], 3, hname="h_aead-huge", timeout=5000)
    run_special(ctx, "h_aead.c", build_set(ctx, ["prod", "gcc-O2", "clang-O2"]), ["--mode", "rt,special"], 4, "h_aead-sp")
    abi.ilp32_monitor(ctx, ['aead'])
    ctx.rule = AEAD_RULE + " Long cases: fixed lengths {65535..65539, 128 KiB+2, 256 KiB, 256 KiB+5, 1 MiB+1} for every variant + random; thorough also 2^32+5 and 2^31+3 bytes in place. Battery: encrypt -> length check -> decrypt (separate and in-place) -> compare; in-place encrypt == out-of-place."
    ctx.rule += ' Supplementary ILP32 monitor: the portable sources compiled with gcc/clang -m32 (4-byte size_t, pointers and long; freestanding runtime, every buffer against a PROT_NONE page) and the production archive run the same deterministic case list (harness/h_abi.c, section aead) as the model; the outputs are compared line by line.'
    ctx.rule += ' Corpus replay: every entry of model/pinned/special.txt (inputs found with the model alone for which an internal word - chaining value, keystream, tag half, DRBG state - is 0 / ffffffff / equal to its neighbour, or a forged SIV tag is wrong in a structured way: probability about 2^-32 per random input) goes through the same oracle.'
    ctx.exhaustive = False
    ctx.assumptions += ["overlapping-but-not-identical buffers are outside the contract and never generated",
                        "contents and lengths above the window are sampled"]


# ---------------------------------------------------------------------------------- C02

@check("C02", "exploration", floor=1000)
def c02(ctx):
    load_replay(ctx)
    ctx.model_selfcheck()
    W, R, NL = ctx.q((32, 4, 16), (70, 12, 150))
    builds = build_set(ctx, ctx.q(["prod", "gcc-O0", "gcc-O2", "gcc-Os", "clang-O2", "clang-O3", "clang-Os", "gcc-O2+funsigned-char", "alts", "asan-gcc"],
                                  ["prod"] + MATRIX + MATRIX_X + ["asan-gcc", "asan-clang"]))
    # same seed and same case list for every build: build-independence = all of them equal the model
    run_harness_on(ctx, "h_aead.c", builds, ["--mode", "model", "--p1", W, "--p2", R, "--p3", NL], ctx.q(4, 16))
    # the shared object as shipped
    p = ctx.prod()
    exe = ctx.harness("h_aead-prod-shared", "h_aead.c", None, cc="gcc", ldflags=["-L" + p["sodir"], "-ltinyjambu", "-Wl,-rpath," + p["sodir"]])
    ctx.run_jobs(batch_jobs(ctx, exe, "prod-cmake-Release-shared", ["--mode", "model", "--p1", W, "--p2", 1, "--p3", 4], 4))
    # 2^32+5 and 2^31+3 byte messages in place, ciphertext and tag compared with the streaming model (thorough; the quick
    # tier runs the same code scaled to 2^22+5 / 2^21+3 bytes)
    run_harness_on(ctx, "h_aead.c", build_set(ctx, ["prod"]), ["--mode", "rt,hugemsg", "--p3", ctx.q(22, 0)], 3, hname="h_aead-hugemsg", timeout=6000)
    if ctx.thorough:
        # AD of 2^32+7 bytes for all six variants: relational oracle against length truncation / ignored bytes
        run_harness_on(ctx, "h_aead.c", build_set(ctx, ["prod"]), ["--mode", "model,hugead"], 6, hname="h_aead-huge", timeout=5000)
    run_special(ctx, "h_aead.c", build_set(ctx, ["prod", "gcc-O2", "clang-O2"]), ["--mode", "model,special"], 4, "h_aead-sp")
    abi.ilp32_monitor(ctx, ['aead'])
    ctx.rule = AEAD_RULE + (" Oracle: bit-serial NLFSR model written from the specification (pinned to KATs); every case: library "
                            "ciphertext||tag == model, a second encryption is identical, the model's packet (foreign encryptor) opens to the model's plaintext.")
    ctx.rule += ' Supplementary ILP32 monitor: the portable sources compiled with gcc/clang -m32 (4-byte size_t, pointers and long; freestanding runtime, every buffer against a PROT_NONE page) and the production archive run the same deterministic case list (harness/h_abi.c, section aead) as the model; the outputs are compared line by line.'
    ctx.rule += ' Corpus replay: every entry of model/pinned/special.txt (inputs found with the model alone for which an internal word - chaining value, keystream, tag half, DRBG state - is 0 / ffffffff / equal to its neighbour, or a forged SIV tag is wrong in a structured way: probability about 2^-32 per random input) goes through the same oracle.'
    ctx.exhaustive = False
    ctx.assumptions += ["a deviation keyed to one specific 32-bit word value would need ~2^32 samples",
                        "the model itself is anchored only by the pinned KAT vectors (bytes < 0x21, lengths <= 32) and by being a literal transcription of the specification"]


# ---------------------------------------------------------------------------------- C03

@check("C03", "exploration", floor=200)
def c03(ctx):
    load_replay(ctx)
    ctx.model_selfcheck()
    W, R, NL = ctx.q((14, 1, 6), (40, 2, 40))
    builds = build_set(ctx, ctx.q(["prod", "clang-O2", "alts", "asan-gcc"], ["prod", "gcc-O2", "gcc-Os", "clang-O2", "clang-O3", "alts", "asan-gcc", "asan-clang"]))
    run_harness_on(ctx, "h_aead.c", builds, ["--mode", "tamper", "--p1", W, "--p2", R, "--p3", NL], 16, timeout=3000)
    if ctx.thorough:
        # AD extended / truncated by exactly 2^32 bytes must be rejected (a 32-bit length somewhere would accept it)
        run_harness_on(ctx, "h_aead.c", build_set(ctx, ["prod"]), ["--mode", "tamper,hugetamper"], 3, hname="h_aead-huge", timeout=5000)
    # a forged packet of 2^32+16+8 bytes opened in place: rejected, all plaintext bytes zero (quick: scaled to 2^22+16)
    run_harness_on(ctx, "h_aead.c", build_set(ctx, ["prod"]), ["--mode", "tamper,hugereject", "--p3", ctx.q(22, 0)], 3, hname="h_aead-hugerej", timeout=6000)
    run_special(ctx, "h_aead.c", build_set(ctx, ["prod", "gcc-O2", "clang-O2"]), ["--mode", "tamper,special"], 4, "h_aead-sp")
    abi.ilp32_monitor(ctx, ['aead'])
    ctx.rule = AEAD_RULE + (" Per packet: valid, forged-valid (random body + model tag must be ACCEPTED), 64 tag bit flips, every "
                            "non-zero XOR delta in every tag byte, cancellation patterns (XOR-fold / additive / reversed / rotated / complemented-but-one), "
                            "bit flips in body / AD / nonce / key, truncation, extension, AD-message boundary shifts by 1..4, AD-body swap, clen 0..7; "
                            "expected verdict is exact: accept iff received tag == model tag for the model-recovered plaintext.")
    ctx.rule += ' Supplementary ILP32 monitor: the portable sources compiled with gcc/clang -m32 (4-byte size_t, pointers and long; freestanding runtime, every buffer against a PROT_NONE page) and the production archive run the same deterministic case list (harness/h_abi.c, section aead) as the model; the outputs are compared line by line.'
    ctx.rule += ' Corpus replay: every entry of model/pinned/special.txt (inputs found with the model alone for which an internal word - chaining value, keystream, tag half, DRBG state - is 0 / ffffffff / equal to its neighbour, or a forged SIV tag is wrong in a structured way: probability about 2^-32 per random input) goes through the same oracle.'
    ctx.exhaustive = False
    ctx.assumptions += ["2^64-1 wrong tags per packet are sampled structurally, not enumerated"]


# ---------------------------------------------------------------------------------- C04

@check("C04", "exploration", floor=500)
def c04(ctx):
    load_replay(ctx)
    ctx.model_selfcheck()
    W, R, NL = ctx.q((20, 1, 40), (70, 3, 300))
    builds = build_set(ctx, ctx.q(["prod", "gcc-O2", "clang-O2", "alts", "asan-gcc"], ["prod", "gcc-O2", "gcc-O3", "gcc-Os", "clang-O2", "clang-O3", "alts", "asan-gcc", "asan-clang"]))
    run_harness_on(ctx, "h_aead.c", builds, ["--mode", "zero,both", "--p1", W, "--p2", R, "--p3", NL], 16, timeout=3000)
    # dense length sweep 0..300 on the production object: one tag flip per length per variant
    run_harness_on(ctx, "h_aead.c", build_set(ctx, ["prod"]), ["--mode", "zero,both,sweep", "--p1", 0, "--p2", 1, "--p3", ctx.q(300, 4000)], 8,
                   hname="h_aead-sweep")
    # a forged packet with a 2^32+16 byte body opened in place: every plaintext byte zero afterwards (quick: scaled to 2^22+16)
    run_harness_on(ctx, "h_aead.c", build_set(ctx, ["prod"]), ["--mode", "zero,hugereject", "--p3", ctx.q(22, 0)], 3, hname="h_aead-hugerej", timeout=6000)
    run_harness_on(ctx, "h_aead.c", build_set(ctx, ["prod"]), ["--mode", "zero,siv,hugereject", "--p3", ctx.q(22, 0)], 3, hname="h_aead-hugerej", timeout=8000)
    run_special(ctx, "h_aead.c", build_set(ctx, ["prod", "gcc-O2", "clang-O2"]), ["--mode", "zero,both,special"], 4, "h_aead-sp")
    abi.ilp32_monitor(ctx, ['aead', 'siv'])
    ctx.rule = AEAD_RULE + (" All 6 variants; per packet up to 12 tamper sites (each tag byte, body, nonce, key, AD length), in place and "
                            "out of place, output region pre-filled with recorded non-zero junk; after every rejection every byte of "
                            "m[0..clen-8) is read back and must be zero; long packets up to 1 MiB (thorough: 16 MiB); one forged packet per variant with a 2^32+16 byte body (thorough; quick: 2^22+16) opened in place, whole buffer read back.")
    ctx.rule += ' Supplementary ILP32 monitor: the portable sources compiled with gcc/clang -m32 (4-byte size_t, pointers and long; freestanding runtime, every buffer against a PROT_NONE page) and the production archive run the same deterministic case list (harness/h_abi.c, section aead/siv) as the model; the outputs are compared line by line.'
    ctx.rule += ' Corpus replay: every entry of model/pinned/special.txt (inputs found with the model alone for which an internal word - chaining value, keystream, tag half, DRBG state - is 0 / ffffffff / equal to its neighbour, or a forged SIV tag is wrong in a structured way: probability about 2^-32 per random input) goes through the same oracle.'
    ctx.exhaustive = False


# ---------------------------------------------------------------------------------- C08

@check("C08", "exploration", floor=500)
def c08(ctx):
    load_replay(ctx)
    ctx.model_selfcheck()
    W, R, NL = ctx.q((24, 2, 12), (70, 8, 100))
    builds = build_set(ctx, ctx.q(["prod", "gcc-O2", "clang-O2", "gcc-Os", "alts", "asan-gcc"], ["prod"] + MATRIX + MATRIX_X + ["asan-gcc", "asan-clang"]))
    run_harness_on(ctx, "h_aead.c", builds, ["--mode", "rt,siv", "--p1", W, "--p2", R, "--p3", NL], ctx.q(6, 16))
    W2, R2, NL2 = ctx.q((10, 1, 4), (28, 1, 30))
    builds2 = build_set(ctx, ctx.q(["prod", "clang-O2", "alts", "asan-gcc"], ["prod", "clang-O2", "clang-O3", "gcc-Os", "alts", "asan-gcc", "asan-clang"]))
    run_harness_on(ctx, "h_aead.c", builds2, ["--mode", "tamper,siv", "--p1", W2, "--p2", R2, "--p3", NL2], 16, hname="h_aead-t", timeout=3000)
    if ctx.thorough:
        run_harness_on(ctx, "h_aead.c", build_set(ctx, ["prod"]), ["--mode", "tamper,siv,hugetamper"], 3, hname="h_aead-huge", timeout=5000)
        # SIV round trip of 2^32+5 and 2^31+3 byte messages in place (two passes each way: ~5 minutes per case)
        run_harness_on(ctx, "h_aead.c", build_set(ctx, ["prod"]), ["--mode", "rt,siv,hugemsg"], 3, hname="h_aead-huge", timeout=8000)
    run_harness_on(ctx, "h_aead.c", build_set(ctx, ["prod"]), ["--mode", "tamper,siv,hugereject", "--p3", ctx.q(22, 0)], 3, hname="h_aead-hugerej", timeout=8000)
    run_special(ctx, "h_aead.c", build_set(ctx, ["prod", "gcc-O2", "clang-O2"]), ["--mode", "rt,tamper,siv,special"], 4, "h_aead-sp")
    abi.ilp32_monitor(ctx, ['siv'])
    ctx.rule = AEAD_RULE + (" SIV variants. Round-trip battery (incl. in place) + tamper battery where every expected verdict comes from "
                            "the model of the SIV construction for arbitrary bodies and tags (a changed tag changes keystream and expected tag), "
                            "nonce bytes 0..3 and 4..11 flipped separately, clen 0..7.")
    ctx.rule += ' Supplementary ILP32 monitor: the portable sources compiled with gcc/clang -m32 (4-byte size_t, pointers and long; freestanding runtime, every buffer against a PROT_NONE page) and the production archive run the same deterministic case list (harness/h_abi.c, section siv) as the model; the outputs are compared line by line.'
    ctx.rule += ' Corpus replay: every entry of model/pinned/special.txt (inputs found with the model alone for which an internal word - chaining value, keystream, tag half, DRBG state - is 0 / ffffffff / equal to its neighbour, or a forged SIV tag is wrong in a structured way: probability about 2^-32 per random input) goes through the same oracle.'
    ctx.exhaustive = False


# ---------------------------------------------------------------------------------- C09

@check("C09", "exploration", floor=1000)
def c09(ctx):
    load_replay(ctx)
    ctx.model_selfcheck()
    W, R, NL = ctx.q((32, 3, 16), (70, 10, 150))
    builds = build_set(ctx, ctx.q(["prod", "gcc-O2", "clang-O3", "gcc-Os", "alts", "asan-gcc"], ["prod"] + MATRIX + MATRIX_X + ["asan-gcc", "asan-clang"]))
    run_harness_on(ctx, "h_aead.c", builds, ["--mode", "model,pairs,siv", "--p1", W, "--p2", R, "--p3", NL], ctx.q(4, 16))
    run_harness_on(ctx, "h_aead.c", build_set(ctx, ["prod"]), ["--mode", "rt,siv,hugemsg", "--p3", ctx.q(22, 0)], 3, hname="h_aead-hugemsg", timeout=8000)
    # positive control: the same pair generator through plain AEAD must show related bodies
    run_harness_on(ctx, "h_aead.c", build_set(ctx, ["prod"]), ["--mode", "pairs", "--p1", W, "--p2", 1, "--p3", 0], 2, hname="h_aead-ctl")
    if not ctx.replay and ctx.stats.get("aead_control_pairs_related", 0) < 50:
        ctx.inconclusive.append("positive control (AEAD nonce-reuse pairs are related) observed too few pairs")
    if not ctx.replay and ctx.stats.get("siv_reuse_pairs", 0) < 200:
        ctx.inconclusive.append("too few SIV nonce-reuse pairs observed")
    sivref_second_opinion(ctx)
    run_special(ctx, "h_aead.c", build_set(ctx, ["prod", "gcc-O2", "clang-O2"]), ["--mode", "model,siv,special"], 4, "h_aead-sp")
    abi.ilp32_monitor(ctx, ['siv'])
    ctx.rule = AEAD_RULE + (" SIV variants vs the model of the README two-pass construction (both directions, determinism), plus nonce-reuse pairs "
                            "(one bit / one byte / suffix of the message, one bit of the AD; mlen >= 8): tags differ and body1^body2 != m1^m2; "
                            "positive control: the same pairs through plain AEAD are related on the common prefix.")
    ctx.rule += ' Supplementary ILP32 monitor: the portable sources compiled with gcc/clang -m32 (4-byte size_t, pointers and long; freestanding runtime, every buffer against a PROT_NONE page) and the production archive run the same deterministic case list (harness/h_abi.c, section siv) as the model; the outputs are compared line by line.'
    ctx.rule += ' Corpus replay: every entry of model/pinned/special.txt (inputs found with the model alone for which an internal word - chaining value, keystream, tag half, DRBG state - is 0 / ffffffff / equal to its neighbour, or a forged SIV tag is wrong in a structured way: probability about 2^-32 per random input) goes through the same oracle.'
    ctx.exhaustive = False
    ctx.assumptions += ["pair relations can coincide by chance with probability <= 2^-64 per pair"]


def sivref_second_opinion(ctx):
    """tools/sivref/encrypt-*.c compiled as is; disagreement between bundled reference and model is reported as such."""
    import glob
    d = os.path.join(ctx.scratch, "sivref")
    os.makedirs(d, exist_ok=True)
    objs = []
    for ks in (128, 192, 256):
        src = "%s/tools/sivref/encrypt-%d.c" % (REPO, ks)
        if not os.path.exists(src):
            ctx.info.append("tools/sivref/encrypt-%d.c not present: second opinion skipped" % ks)
            return
        o = os.path.join(d, "ref%d.o" % ks)
        ctx.sh(["gcc", "-c", "-O2", "-w", "-I" + REPO + "/tools/sivref", "-Dcrypto_aead_encrypt=sivref_%d_encrypt" % ks,
                "-Dcrypto_aead_decrypt=sivref_%d_decrypt" % ks, "-Dstate_update=sivref_%d_su" % ks,
                "-Dinitialization=sivref_%d_init" % ks, "-Dprocess_ad=sivref_%d_ad" % ks, src, "-o", o])
        # localize every other global so the three files can be linked together
        ctx.sh(["objcopy", "--keep-global-symbol=sivref_%d_encrypt" % ks, "--keep-global-symbol=sivref_%d_decrypt" % ks, o])
        objs.append(o)
    exe = os.path.join(d, "h_sivref")
    ctx.sh(["gcc", "-O1", "-g", "-I" + VERIF + "/harness", "-I" + VERIF + "/model", VERIF + "/harness/h_sivref.c", ctx.model_obj()] + objs + ["-o", exe])
    ctx.run_jobs(batch_jobs(ctx, exe, "sivref", ["--p1", ctx.q(40, 70), "--p2", ctx.q(1, 3)], 4))


# ---------------------------------------------------------------------------------- C10 / C11 / C12

def hashref_objs(ctx):
    """tools/hashref/{hash,state,hmac}.c compiled as they are (second opinion); [] if absent."""
    d = os.path.join(ctx.scratch, "hashref")
    if os.path.isdir(d):
        return [os.path.join(d, f) for f in sorted(os.listdir(d)) if f.endswith(".o")]
    os.makedirs(d, exist_ok=True)
    objs = []
    for f in ("hash.c", "state.c", "hmac.c"):
        src = "%s/tools/hashref/%s" % (REPO, f)
        if not os.path.exists(src):
            ctx.info.append("tools/hashref/%s missing: bundled-reference second opinion skipped" % f)
            return []
        o = os.path.join(d, f[:-2] + ".o")
        ctx.sh(["gcc", "-c", "-O2", "-w", "-I" + REPO + "/tools/hashref", src, "-o", o])
        objs.append(o)
    return objs


def generic_endian_build(ctx):
    """The hash's byte-order conversion path (`#if !defined(LW_UTIL_LITTLE_ENDIAN)`, normally compiled only on
    big-endian hosts) compiled and run on this host: the conversions are identities here, so every digest must be
    unchanged.  No big-endian machine or emulator exists in the sandbox; this at least executes that code."""
    pre = os.path.join(ctx.scratch, "generic_endian.h")
    if not os.path.exists(pre):
        with open(pre, "w") as f:
            f.write('#include "backend/tinyjambu-util.h"\n#undef LW_UTIL_LITTLE_ENDIAN\n')
    return {"tag": "gcc-O2-generic-endian-path", "lib": ctx.lib("gcc-O2-generic-endian-path", "gcc", ["-O2"], pre_include=pre), "cc": "gcc", "hflags": []}


def run_hash(ctx, builds, args, nb, hname, timeout=1800):
    refs = hashref_objs(ctx)
    builds = list(builds) + [generic_endian_build(ctx)]
    jobs = []
    for b in builds:
        use_ref = refs and not b["hflags"]      # uninstrumented reference objects only in uninstrumented harnesses
        exe = ctx.harness(hname + "-" + b["tag"], "h_hash.c", b["lib"], cc=b["cc"], flags=b["hflags"],
                          defs=(["HAVE_HASHREF"] if use_ref else []), ldflags=(refs if use_ref else []))
        jobs += batch_jobs(ctx, exe, b["tag"], args, nb)
    ctx.run_jobs(jobs, timeout=timeout)


def run_hash_huge(ctx, build, variants):
    """thorough only: single calls of 2^32+37 bytes on one build (about 2 minutes per variant, three threads each)"""
    exe = ctx.harness("h_hash-huge-" + build["tag"], "h_hash.c", build["lib"], cc=build["cc"], flags=build["hflags"])
    jobs = []
    for v in variants:
        jobs += batch_jobs(ctx, exe, build["tag"], ["--mode", "huge", "--p1", v], 1)
    ctx.run_jobs(jobs, timeout=3000)


BE_TARGETS = ["armeb-none-eabi", "armebv7a-none-eabi", "thumbebv7em-none-eabi", "aarch64_be-none-elf", "powerpc-linux-gnu", "powerpc64-linux-gnu",
              "mips-linux-gnu", "mips64-linux-gnu", "s390x-linux-gnu", "sparc-linux-gnu", "sparc64-linux-gnu", "m68k-linux-gnu"]
LE_TARGETS = ["x86_64-linux-gnu", "i686-linux-gnu", "arm-none-eabi", "thumbv7m-none-eabi", "aarch64-linux-gnu", "riscv32", "riscv64", "avr",
              "mipsel-linux-gnu", "powerpc64le-linux-gnu"]


def byte_order_census(ctx):
    """Supplementary configuration census for C10 (same verdict channel, like C19's symbol census): no big-endian
    machine or emulator exists in the sandbox, but the library's own byte-order decision can be EXECUTED under the
    predefined macros of every target clang knows: for a big-endian target the hash must take its conversion path
    (LW_UTIL_LITTLE_ENDIAN undefined), otherwise every digest on that platform is wrong."""
    import subprocess
    if ctx.replay:
        return
    hdr = REPO + "/src/backend/tinyjambu-util.h"
    n = 0
    for t in BE_TARGETS + LE_TARGETS:
        p = subprocess.run(["clang", "--target=" + t, "-ffreestanding", "-E", "-dM", hdr], stdout=subprocess.PIPE, stderr=subprocess.PIPE)
        out = p.stdout.decode()
        if p.returncode and "Cannot determine the endianess" not in p.stderr.decode():
            ctx.info.append("byte-order census: clang has no usable target %s" % t)
            continue
        big = "__BYTE_ORDER__ __ORDER_BIG_ENDIAN__" in out
        little_path = "#define LW_UTIL_LITTLE_ENDIAN" in out
        n += 1
        ctx.count("byte_order_targets_evaluated", 1)
        ctx.count("evaluations", 1)
        ctx.add_classes([("byte-order", t)])
        if p.returncode:
            ctx.info.append("byte-order census: the header refuses target %s (#error): a build break, not a wrong digest" % t)
        elif big and little_path:
            ctx.violation("byte-order-misdetected:" + t.split("-")[0],
                          {"build": "clang --target=%s (preprocessor only)" % t,
                           "detail": "tinyjambu-util.h defines LW_UTIL_LITTLE_ENDIAN although the target's __BYTE_ORDER__ is __ORDER_BIG_ENDIAN__: "
                                     "tinyjambu_hash_compress then skips the little-endian conversion of the message words and every digest (and HMAC, HKDF, "
                                     "PBKDF2, PRNG output) on this platform differs from the documented construction"})
        if len(ctx.samples) < 12 and t in ("armeb-none-eabi", "powerpc-linux-gnu"):
            ctx.samples.append({"h": "byte-order-census", "target": t, "target_is_big_endian": big, "library_takes_little_endian_fast_path": little_path})
    if n < 12:
        ctx.inconclusive.append("byte-order census evaluated only %d targets" % n)


@check("C10", "exploration", floor=500)
def c10(ctx):
    load_replay(ctx)
    ctx.model_selfcheck()
    N, reps, NL = ctx.q((200, 1, 24), (1500, 6, 400))
    builds = build_set(ctx, ctx.q(["prod", "gcc-O0", "gcc-O2", "clang-O2", "clang-O3", "alts", "asan-gcc", "msan"],
                                  ["prod"] + MATRIX + MATRIX_X + ["asan-gcc", "asan-clang", "msan"]))
    run_hash(ctx, builds, ["--mode", "hash", "--p1", N, "--p2", reps, "--p3", NL], ctx.q(4, 16), "h_hash")
    if ctx.thorough:
        run_hash_huge(ctx, builds[0], [0, 2])
    byte_order_census(ctx)
    run_special(ctx, "h_hash.c", build_set(ctx, ["prod", "gcc-O2", "clang-O2"]), ["--mode", "special", "--p1", 0], 4, "h_hash-sp")
    abi.ilp32_monitor(ctx, ['hash'])
    ctx.rule = ("every length 0..N x 6 byte classes (x repetitions), placement (end-guard/start-guard/mid+canary) and alignment offset 0..7 "
                "rotating with the index, NULL for length 0 in half of the cases; random long lengths (to 64 KiB; thorough: one 4 MiB message, and single calls of 2^32+37 bytes judged against the same bytes fed in pieces below 2^32); "
                "same case list on every build. class = (length | long bucket, byte class, placement, offset). Oracle: model of the README MDPH "
                "construction over the bit-serial TinyJAMBU-256 NLFSR; tools/hashref compiled as is as second opinion. Supplementary census: the header's byte-order decision evaluated by the preprocessor under the predefined macros of 12 big-endian and 10 little-endian clang targets.")
    ctx.rule += ' Supplementary ILP32 monitor: the portable sources compiled with gcc/clang -m32 (4-byte size_t, pointers and long; freestanding runtime, every buffer against a PROT_NONE page) and the production archive run the same deterministic case list (harness/h_abi.c, section hash) as the model; the outputs are compared line by line.'
    ctx.rule += ' Corpus replay: every entry of model/pinned/special.txt (inputs found with the model alone for which an internal word - chaining value, keystream, tag half, DRBG state - is 0 / ffffffff / equal to its neighbour, or a forged SIV tag is wrong in a structured way: probability about 2^-32 per random input) goes through the same oracle.'
    ctx.exhaustive = False
    ctx.assumptions += ["message contents are sampled (6 byte classes), lengths above the dense window are sampled"]


@check("C11", "exploration", floor=5000)
def c11(ctx):
    load_replay(ctx)
    ctx.model_selfcheck()
    N, NZ, NR = ctx.q((14, 9, 3000), (20, 11, 60000))
    builds = build_set(ctx, ctx.q(["prod", "clang-O2", "alts", "asan-gcc", "msan"], ["prod", "gcc-O0", "gcc-Os", "clang-O2", "clang-O3", "clang-Os", "gcc-O3+DNDEBUG", "clang-O3+DNDEBUG", "gcc-O2+DTINYJAMBU_FORCE_C32", "clang-O2+DTINYJAMBU_FORCE_C32", "gcc-O2+funsigned-char", "alts", "asan-gcc", "asan-clang", "msan"]))
    run_hash(ctx, builds, ["--mode", "stream", "--p1", N, "--p2", NZ, "--p3", NR], 16, "h_hash-s")
    if ctx.thorough:
        run_hash_huge(ctx, builds[0], [2, 3])
    run_special(ctx, "h_hash.c", build_set(ctx, ["prod", "gcc-O2", "clang-O2"]), ["--mode", "special", "--p1", 1], 4, "h_hash-sp")
    abi.ilp32_monitor(ctx, ['hash'])
    ctx.rule = ("(a) ALL 2^(n-1) compositions of every length n <= N into update calls (exhaustive), state object pre-filled with junk; "
                "(b) for n <= NZ the same with a zero-length update (NULL, then non-NULL) at every gap; (c) random chunkings of messages up to 8 KiB "
                "with sizes from {0..18,30..33,47..49,63..65,100,1000}; (d) random interleaved histories of init/reinit/update/finalize/free/overwrite-with-"
                "stale-copy over 4 state objects, each judged against a shadow concatenation (one-shot + model), and live states forked by a byte copy and used further (the fork is not judged, the state it was copied from is); thorough: update(7) + update(2^32+46) and update(5) + update(2^32+3) against the same bytes fed in pieces below 2^32. class = (n, composition mask) or history index.")
    ctx.rule += ' Supplementary ILP32 monitor: the portable sources compiled with gcc/clang -m32 (4-byte size_t, pointers and long; freestanding runtime, every buffer against a PROT_NONE page) and the production archive run the same deterministic case list (harness/h_abi.c, section hash) as the model; the outputs are compared line by line.'
    ctx.rule += ' Corpus replay: every entry of model/pinned/special.txt (inputs found with the model alone for which an internal word - chaining value, keystream, tag half, DRBG state - is 0 / ffffffff / equal to its neighbour, or a forged SIV tag is wrong in a structured way: probability about 2^-32 per random input) goes through the same oracle.'
    ctx.exhaustive = False
    ctx.extra_cov["exhaustive_subspace"] = "all compositions of n <= %d (sum 2^(n-1) = %d sequences) on every build" % (N, 2 ** N - 1)
    ctx.assumptions += ["finalized states are never continued without reinit (unspecified)"]


@check("C12", "exploration", floor=500)
def c12(ctx):
    load_replay(ctx)
    ctx.model_selfcheck()
    K, NR = ctx.q((200, 150), (400, 20000))
    builds = build_set(ctx, ctx.q(["prod", "gcc-O2", "clang-O2", "alts", "asan-gcc", "msan"], ["prod"] + MATRIX + MATRIX_X + ["asan-gcc", "asan-clang", "msan"]))
    run_hash(ctx, builds, ["--mode", "hmac", "--p1", K, "--p3", NR], ctx.q(8, 16), "h_hash-m")
    if ctx.thorough:
        run_hash_huge(ctx, builds[0], [1])
    run_special(ctx, "h_hash.c", build_set(ctx, ["prod", "gcc-O2", "clang-O2"]), ["--mode", "special", "--p1", 2], 4, "h_hash-sp")
    abi.ilp32_monitor(ctx, ['hmac'])
    ctx.rule = ("every key length 0..K (NULL for 0 in half the cases) x message lengths {0,1,15,16,17,31,32,33,63,64,65,127,128,200} + random "
                "(key <= 300, message <= 4096); per case: one-shot vs RFC 2104 model, incremental with random chunking and the key at a different "
                "address for finalize, reinit after an abandoned prefix, reinit after finalize, with a second HMAC object (80-byte key) started before and finished after; the message sometimes lies inside the key buffer; thorough: one-shot HMAC of 2^32+37 bytes vs the same bytes in updates below 2^32. class = (keylen, mlen, byte class).")
    ctx.rule += ' Supplementary ILP32 monitor: the portable sources compiled with gcc/clang -m32 (4-byte size_t, pointers and long; freestanding runtime, every buffer against a PROT_NONE page) and the production archive run the same deterministic case list (harness/h_abi.c, section hmac) as the model; the outputs are compared line by line.'
    ctx.rule += ' Corpus replay: (key, message) pairs whose INNER digest has a rare word pattern (model/pinned/special.txt, found with the model alone), one-shot, byte-wise, and with the state re-keyed afterwards.'
    ctx.exhaustive = False


# ---------------------------------------------------------------------------------- C13 / C14

@check("C13", "exploration", floor=50)
def c13(ctx):
    load_replay(ctx)
    ctx.model_selfcheck()
    NS = ctx.q(160, 1600)
    builds = build_set(ctx, ctx.q(["prod", "clang-O2", "alts", "asan-gcc", "msan"], ["prod", "gcc-O0", "gcc-O2", "gcc-Os", "clang-O2", "clang-O3", "clang-Os", "gcc-O3+DNDEBUG", "clang-O3+DNDEBUG", "gcc-O2+DTINYJAMBU_FORCE_C32", "clang-O2+DTINYJAMBU_FORCE_C32", "gcc-O2+funsigned-char", "alts", "asan-gcc", "asan-clang", "msan"]))
    run_harness_on(ctx, "h_kdf.c", builds, ["--mode", "hkdf", "--p1", NS], 16, timeout=3000)
    abi.ilp32_monitor(ctx, ['hkdf'])
    ctx.rule = ("one case = one (key, salt, info) stream: lengths from {0(NULL),1,31,32,33,64,65,100}^3 (first 512 indices, enumerated) then random; "
                "the model's RFC 5869 output (8160 bytes for every 4th stream in quick, every stream in thorough; 700 otherwise) is computed once and the "
                "library judged on 11-18 one-shot lengths (0..300, 32k-1/32k/32k+1, 8159, 8160), 6 refused lengths {8161, 8192, 10000, 65536, 2^32+5, SIZE_MAX} "
                "(return -1, canary buffer untouched), empty-salt == 32 zero bytes, and 2-6 random partitions into expand calls with sizes "
                "{0,1,5,31,32,33,64,100,1000,2500} running past the cap (return codes, bytes up to 8160 == model, every byte past it zero, calls after exhaustion). "
                "class = (keylen, saltlen, infolen, byte class).")
    ctx.rule += ' Supplementary ILP32 monitor: the portable sources compiled with gcc/clang -m32 (4-byte size_t, pointers and long; freestanding runtime, every buffer against a PROT_NONE page) and the production archive run the same deterministic case list (harness/h_abi.c, section hkdf) as the model; the outputs are compared line by line.'
    ctx.exhaustive = False


@check("C14", "exploration", floor=100)
def c14(ctx):
    load_replay(ctx)
    ctx.model_selfcheck()
    D, NR = ctx.q((100, 150), (200, 12000))
    builds = build_set(ctx, ctx.q(["prod", "clang-O2", "alts", "asan-gcc", "msan"], ["prod", "gcc-O0", "gcc-O2", "gcc-Os", "clang-O2", "clang-O3", "clang-Os", "gcc-O3+DNDEBUG", "clang-O3+DNDEBUG", "gcc-O2+DTINYJAMBU_FORCE_C32", "clang-O2+DTINYJAMBU_FORCE_C32", "gcc-O2+funsigned-char", "alts", "asan-gcc", "asan-clang", "msan"]))
    run_harness_on(ctx, "h_kdf.c", builds, ["--mode", "pbkdf2", "--p1", D, "--p3", NR], 16, timeout=3000)
    if ctx.thorough:
        run_harness_on(ctx, "h_kdf.c", builds[:1], ["--mode", "pbkdf2huge"], 1, timeout=3000, hname="h_kdf-huge")
    run_special(ctx, "h_kdf.c", build_set(ctx, ["prod", "gcc-O2", "clang-O2"]), ["--mode", "special"], 4, "h_kdf-sp")
    abi.ilp32_monitor(ctx, ['pbkdf2'])
    ctx.rule = ("every outlen 0..D with password lengths {0,1,63,64,65,100,200}, salt lengths 0..40 and counts {0,1,2,3,4,5,10} rotating; "
                "outputs 8165, 8200, 20000, 8192, 8223 bytes (block index > 255); counts {100,1000,4096} with short outputs; random parameter sets; "
                "output buffer sized exactly and abutting a guard page (or canaries); relational: count 0 == count 1, shorter output is a prefix; thorough: one call producing 2^24+2 blocks (512 MiB), 14 sampled blocks against the model. "
                "class = (outlen, pwlen, saltlen, count). Oracle: RFC 8018 model over the model HMAC.")
    ctx.rule += ' Supplementary ILP32 monitor: the portable sources compiled with gcc/clang -m32 (4-byte size_t, pointers and long; freestanding runtime, every buffer against a PROT_NONE page) and the production archive run the same deterministic case list (harness/h_abi.c, section pbkdf2) as the model; the outputs are compared line by line.'
    ctx.rule += ' Corpus replay: (password, salt) pairs for which, at iteration j of block 1, a word of the accumulator equals the same word of U_j or a word of U_j is 0 / ffffffff (model/pinned/special.txt, found with the model alone), counts j-1, j, j+1, 2j.'
    ctx.exhaustive = False


# ---------------------------------------------------------------------------------- C15 / C16 / C17

PRNG_ASSUME = ["the 32-byte seed buffer as it stands after the entropy callback returned is taken as the 256-bit entropy_input "
               "(observed by the callback itself, so the oracle does not depend on how the library pre-fills that buffer)"]


@check("C15", "exploration", floor=500)
def c15(ctx):
    load_replay(ctx)
    ctx.model_selfcheck()
    NH, NR = ctx.q((2500, 200), (100000, 4000))
    builds = build_set(ctx, ctx.q(["prod", "clang-O2", "alts", "asan-gcc", "msan"], ["prod", "gcc-O0", "gcc-O2", "gcc-Os", "clang-O2", "clang-O3", "clang-Os", "gcc-O3+DNDEBUG", "clang-O3+DNDEBUG", "gcc-O2+DTINYJAMBU_FORCE_C32", "clang-O2+DTINYJAMBU_FORCE_C32", "gcc-O2+funsigned-char", "alts", "asan-gcc", "asan-clang", "msan"]))
    if ctx.thorough:       # full history count on the production and ASan objects, a tenth on the other builds
        run_harness_on(ctx, "h_prng.c", [b for b in builds if b["tag"] in ("prod-cmake-Release", "asan-gcc")], ["--mode", "model", "--p1", NH, "--p2", NR], 16, timeout=3000)
        run_harness_on(ctx, "h_prng.c", [b for b in builds if b["tag"] not in ("prod-cmake-Release", "asan-gcc")], ["--mode", "model", "--p1", NH // 10, "--p2", NR // 10], 16, timeout=3000)
    else:
        run_harness_on(ctx, "h_prng.c", builds, ["--mode", "model", "--p1", NH, "--p2", NR], 16, timeout=3000)
    if ctx.thorough:
        # one generate call of 2^32+7 bytes against 4096 one-MiB calls from an identically seeded object (about ten minutes)
        run_harness_on(ctx, "h_prng.c", builds[:1], ["--mode", "hugegen"], 1, timeout=5000, hname="h_prng-hugegen")
    # 1 MiB streams at the maximum reseed limit (carry out of the low word of V + H + C + counter needs a large counter)
    run_harness_on(ctx, "h_prng.c", builds[:1], ["--mode", "model", "--p1", 0, "--p2", 0, "--p3", ctx.q(32, 480)], 16, timeout=3000, hname="h_prng-long")
    run_special(ctx, "h_prng.c", build_set(ctx, ["prod", "gcc-O2", "clang-O2"]), ["--mode", "special"], 4, "h_prng-sp")
    abi.ilp32_monitor(ctx, ['prng'])
    ctx.rule = ("random histories init_user(custom) . (generate | feed | reseed | set_limit)* of length <= 12 (thorough 40) with generate sizes "
                "{0,1,31,32,33,64,100,1000,5000}, limits {0,1,31,32,33,64,100,1024,5000,1 MiB,1 MiB+1,SIZE_MAX}, feeds of 0..299 bytes (NULL for 0), "
                "customisation NULL/0, 5, 64..163, <64 bytes, scripted deliveries (every third history includes short and zero deliveries). A shadow "
                "Hash_DRBG over the model hash predicts every output byte AND every entropy request (count, size, byte offset inside the call); first "
                "divergence is reported with the op index. Long streams: 32 (thorough 480) streams of 1 MiB at the maximum limit (reseed counter up to 32768), "
                "every block compared with the shadow; thorough: ONE generate call of 2^32+7 bytes equals the stream of 4096 one-MiB calls from an identically seeded object, 4096 entropy requests. Relational: different initial seeds + identical feed/reseed material => different streams. "
                "class = history index (all histories distinct by construction).")
    ctx.rule += ' Supplementary ILP32 monitor: the portable sources compiled with gcc/clang -m32 (4-byte size_t, pointers and long; freestanding runtime, every buffer against a PROT_NONE page) and the production archive run the same deterministic case list (harness/h_abi.c, section prng) as the model; the outputs are compared line by line.'
    ctx.rule += ' Corpus replay: every entry of model/pinned/special.txt (inputs found with the model alone for which an internal word - chaining value, keystream, tag half, DRBG state - is 0 / ffffffff / equal to its neighbour, or a forged SIV tag is wrong in a structured way: probability about 2^-32 per random input) goes through the same oracle.'
    ctx.exhaustive = False
    ctx.assumptions += PRNG_ASSUME


@check("C16", "exploration", floor=5000)
def c16(ctx):
    load_replay(ctx)
    L, NR = ctx.q((4, 1500), (6, 40000))
    # the matrix builds are compiled with -DRWEATHER_TINYJAMBU_VERIF (counter hook); the cmake production build is not
    builds = build_set(ctx, ctx.q(["prod", "gcc-O2", "clang-O2", "alts", "asan-gcc"], ["prod", "gcc-O0", "gcc-O2", "gcc-Os", "clang-O2", "clang-O3", "gcc-O3+DNDEBUG", "clang-O3+DNDEBUG", "gcc-O2+DTINYJAMBU_FORCE_C32", "alts", "asan-gcc", "asan-clang"]))
    if ctx.thorough:
        # the 1.1 M-sequence enumeration runs on the production object; other builds take length <= 5
        run_harness_on(ctx, "h_prng.c", builds[:1], ["--mode", "budget", "--p1", L, "--p3", NR], 16, timeout=3000, hname="h_prng-b")
        run_harness_on(ctx, "h_prng.c", builds[1:], ["--mode", "budget", "--p1", 5, "--p3", NR // 10], 16, timeout=3000, hname="h_prng-b")
        # 2^27 - 32 (+-1) feed calls through the API (minutes each): production object and one hooked build
        run_harness_on(ctx, "h_prng.c", builds[:1] + [b for b in builds if b["tag"] == "gcc-O2"], ["--mode", "realfeeds"], 3, timeout=3000, hname="h_prng-b")
    else:
        run_harness_on(ctx, "h_prng.c", builds[:1], ["--mode", "budget", "--p1", L, "--p3", NR], 16, timeout=3000, hname="h_prng-b")
        run_harness_on(ctx, "h_prng.c", builds[1:], ["--mode", "budget", "--p1", L, "--p3", NR // 5], 16, timeout=3000, hname="h_prng-b")
    abi.ilp32_monitor(ctx, ['prng'])
    ctx.rule = ("(a) ALL operation sequences of length <= L over the alphabet {gen 1, gen 32, gen 33, gen 100, feed, reseed, limit 0, limit 1, limit 33, "
                "limit 64} (sum 10^k), each followed by a 1200-byte drain; (b) random runs of 5..44 operations with limits {0,1,31,32,33,64,100,1024,4096,"
                "65536,3000,1 MiB,1 MiB+1,SIZE_MAX} and generate sizes up to 70000 (every 17th run up to 5 MiB). Monitor: bytes emitted since the last "
                "entropy request (callback event; its byte offset inside generate is recovered from a sentinel pre-fill) never exceed 32*max(1,ceil(min(limit,"
                "1 MiB)/32)) for the limit in force, evaluated after every non-empty emitted segment. Twin monitor: a byte copy of the state with one extra "
                "feed requests entropy no later than the original. (c) with the RWEATHER_TINYJAMBU_VERIF hook (matrix builds): the 32-bit block counter is placed 0..4 below the top of its range - the state reached by ~2^32 feeds, hours through the API - followed by 0..8 feeds x limits {0, 64, 1024, 1 MiB} under the same budget and twin monitors; and at 2^k-2..2^k+2 for k in {8,15,16,20,24,26..31} after 0, 1 or a full limit of blocks generated through the API (the states reached by 2^k feeds: minutes to hours through the API); thorough: 2^27-32 (+-1) feed calls really made through the API after 1024 bytes of output, same monitors, and the hook's reading of the counter compared with what the placed histories assume. class = sequence index.")
    ctx.rule += ' Supplementary ILP32 monitor: the portable sources compiled with gcc/clang -m32 (4-byte size_t, pointers and long; freestanding runtime, every buffer against a PROT_NONE page) and the production archive run the same deterministic case list (harness/h_abi.c, section prng) as the model; the outputs are compared line by line.'
    ctx.exhaustive = False
    ctx.extra_cov["exhaustive_subspace"] = "all %d-operation-alphabet sequences of length <= %d on the production object" % (10, L)


@check("C17", "fault_enumeration", floor=1000)
def c17(ctx):
    load_replay(ctx)
    ctx.model_selfcheck()
    NR = ctx.q(300, 40000)
    builds = build_set(ctx, ctx.q(["prod", "clang-O2", "alts", "asan-gcc", "msan"], ["prod", "gcc-O0", "gcc-O2", "gcc-Os", "clang-O2", "clang-O3", "clang-Os", "gcc-O3+DNDEBUG", "clang-O3+DNDEBUG", "gcc-O2+DTINYJAMBU_FORCE_C32", "clang-O2+DTINYJAMBU_FORCE_C32", "gcc-O2+funsigned-char", "alts", "asan-gcc", "asan-clang", "msan"]))
    # the NULL-callback / plain-init paths end in the system source: also on the getentropy() configuration of it
    ge = ctx.make_config("getentropy", BASE_CFG + ["HAVE_GETENTROPY"])
    builds.append({"tag": "gcc-O2-cfg-getentropy", "lib": ctx.lib("gcc-O2-cfg-getentropy", "gcc", ["-O2"], cfg=ge), "cc": "gcc", "hflags": []})
    run_harness_on(ctx, "h_prng.c", builds, ["--mode", "faults", "--p3", NR], 16, timeout=3000, hname="h_prng-f")
    if ctx.thorough:
        # personalisation string of 2^32+5 bytes: status, request count, output against the model (minutes)
        run_harness_on(ctx, "h_prng.c", builds[:1], ["--mode", "hugecustom"], 1, timeout=3000, hname="h_prng-f")
    if not ctx.replay and ctx.stats.get("null_callback_child_runs", 0) < 6:
        ctx.inconclusive.append("NULL-callback child runs did not all execute")
    abi.ilp32_monitor(ctx, ['prng'])
    ctx.rule = ("fault space = sizes delivered by the entropy source over successive requests. ALL 5^4 = 625 patterns over {0,1,16,31,32} for the first "
                "four requests (init, explicit reseed, two automatic reseeds) x customisation {NULL/0, 5, 100 bytes}, then random patterns over up to 12 "
                "requests with deliveries 0..32. Per pattern: init/reseed status non-zero iff exactly 32 bytes delivered; all output equals the shadow "
                "model fed with the bytes actually delivered; 32-byte blocks pairwise distinct and not constant; re-run with different partial bytes gives a "
                "different stream. NULL callback: forked child, OS entropy call interposed by a deterministic stub (success and EPERM): same status, "
                "same 2100-byte stream (crossing two automatic reseeds) and same number of OS calls as tinyjambu_prng_init, equal to the model. "
                "class = pattern index.")
    ctx.rule += ' Supplementary ILP32 monitor: the portable sources compiled with gcc/clang -m32 (4-byte size_t, pointers and long; freestanding runtime, every buffer against a PROT_NONE page) and the production archive run the same deterministic case list (harness/h_abi.c, section prng) as the model; the outputs are compared line by line.'
    ctx.exhaustive = True
    ctx.extra_cov["exhaustive_subspace"] = "all 625 delivery patterns over the first four entropy requests x 3 customisations"
    ctx.assumptions += PRNG_ASSUME + ["over-claiming callbacks (return > requested size) violate the callback contract and are not generated"]


# ---------------------------------------------------------------------------------- C18

BASE_CFG = ["HAVE_STRINGS_H", "HAVE_EXPLICIT_BZERO", "HAVE_SYS_RANDOM_H", "HAVE_SYS_SYSCALL_H", "HAVE_TIME_H", "HAVE_SYS_TIME_H",
            "HAVE_UNISTD_H", "HAVE_FCNTL_H"]


def trng_variants(ctx):
    """the four system-entropy configurations of src/random/tinyjambu-trng-dev-random.c that exist on Linux"""
    pre = os.path.join(ctx.scratch, "no_sys_getrandom.h")
    with open(pre, "w") as f:
        f.write("#include <sys/syscall.h>\n#undef SYS_getrandom\n")
    return [
        ("getrandom", BASE_CFG + ["HAVE_GETRANDOM", "HAVE_GETENTROPY"], None),
        ("getentropy", BASE_CFG + ["HAVE_GETENTROPY"], None),
        ("rawsyscall", BASE_CFG, None),
        ("devurandom", BASE_CFG, pre),
    ]


@check("C18", "fault_enumeration", floor=2000)
def c18(ctx):
    import re, subprocess
    load_replay(ctx)
    ctx.model_selfcheck()
    K = ctx.q(8, 12)
    variants = trng_variants(ctx)
    jobs = []
    for name, cfg, pi in variants:
        cfgd = ctx.make_config(name, cfg)
        for cc, fl, tag in (("gcc", ["-O2"], ""), ("clang", ["-O3"], "-clangO3"), ("gcc", ["-O2", "-funsigned-char"], "-uchar"), ("gcc", asan_flags("gcc"), "-asan"), ("clang", msan_flags(), "-msan")) + (
                (("gcc", ["-O0"], "-gccO0"), ("gcc", ["-Os", "-std=c99", "-w"], "-gccOs-c99")) if ctx.thorough else ()):
            lib = ctx.lib("trng-" + name + tag, cc, fl, cfg=cfgd, pre_include=pi)
            hfl = fl if tag in ("-asan", "-msan") else []
            exe = ctx.harness("h_trng-" + name + tag, "h_trng.c", lib, cc=cc, flags=hfl, ldflags=["-ldl"])
            jobs += batch_jobs(ctx, exe, "trng-" + name + tag, ["--mode", name, "--p1", K], 4)
    # the production object as configured by the project's own cmake run
    cfgtxt = open(os.path.join(ctx.cfg_dir(), "config.h")).read()
    prodmode = "getrandom" if re.search(r"^#define HAVE_GETRANDOM", cfgtxt, re.M) else "getentropy" if re.search(r"^#define HAVE_GETENTROPY", cfgtxt, re.M) else "rawsyscall"
    p = ctx.prod()
    exe = ctx.harness("h_trng-prod", "h_trng.c", {"static": p["static"]}, cc="gcc", ldflags=["-ldl"])
    jobs += batch_jobs(ctx, exe, "prod-cmake-Release", ["--mode", prodmode, "--p1", K], 4)
    ctx.run_jobs(jobs, timeout=1800)

    # ---- end to end: unmodified production shared library under strace fault injection
    if not ctx.replay:
        e2e = os.path.join(ctx.scratch, "e2e_trng")
        ctx.sh(["gcc", "-O1", "-I" + REPO + "/src", VERIF + "/harness/e2e_trng.c", "-L" + p["sodir"], "-ltinyjambu", "-Wl,-rpath," + p["sodir"], "-o", e2e])
        def strace(inject):
            log = os.path.join(ctx.scratch, "strace.log")
            cmd = ["strace", "-f", "-e", "trace=getrandom", "-o", log] + (["-e", "inject=" + inject] if inject else []) + [e2e]
            # own process group: when the watchdog fires, the traced program must die with strace (a spinning orphan would
            # otherwise outlive the check)
            import signal
            pp = subprocess.Popen(cmd, stdout=subprocess.PIPE, stderr=subprocess.PIPE, start_new_session=True)
            try:
                so, se = pp.communicate(timeout=120)
            except subprocess.TimeoutExpired:
                try:
                    os.killpg(pp.pid, signal.SIGKILL)
                except OSError:
                    pass
                pp.communicate()
                raise
            lines = [l for l in open(log).read().splitlines() if "getrandom(" in l]
            return pp.returncode, so.decode(), lines
        try:
            rc, out, lines = strace(None)
        except Exception as e:      # ptrace not permitted / strace missing: sub-check not run, said so
            ctx.info.append("strace end-to-end sub-check NOT RUN: %s" % e)
            lines = None
        if lines is not None:
            lib_idx = [i for i, l in enumerate(lines) if re.search(r", 32, 0\)", l)]
            if rc != 0 or not lib_idx or "status=1" not in out:
                ctx.inconclusive.append("strace dry run did not show the library's getrandom(32, 0) call: rc=%s out=%r lines=%r" % (rc, out, lines[:4]))
            else:
                n = lib_idx[0] + 1
                ctx.count("strace_runs", 1)
                for err, when, exp_status, exp_inj in (("EINTR", "%d..%d" % (n, n + 2), 1, 3), ("EAGAIN", "%d..%d" % (n, n + 4), 1, 5),
                                                       ("EINTR", "%d..%d" % (n, n + 40), 1, 41),
                                                       ("ENOSYS", "%d+" % n, 0, 1), ("EPERM", "%d+" % n, 0, 1), ("EIO", "%d+" % n, 0, 1)):
                    try:
                        rc, out, lines = strace("getrandom:error=%s:when=%s" % (err, when))
                    except subprocess.TimeoutExpired:
                        # decided on logical steps, not on the clock: how many times was the OS asked after it had answered?
                        lg = [l for l in open(os.path.join(ctx.scratch, "strace.log"), errors="replace").read().splitlines() if re.search(r"getrandom\(.*, 32, 0\)", l)]
                        ok_answers = [l for l in lg if re.search(r"= 32$", l.strip())]
                        if exp_status == 1 and len(ok_answers) > 1000:
                            ctx.violation("e2e-keeps-calling-after-success:%s" % err, {"build": "prod-shared-strace", "inject": "%s when=%s" % (err, when),
                                          "detail": "the OS answered getrandom(32) successfully %d times after %d injected %s results and was still being asked when the run was stopped" % (len(ok_answers), exp_inj, err), "strace": lg[-6:]})
                        else:
                            ctx.inconclusive.append("strace end-to-end run with %s when=%s did not finish (%d library getrandom calls logged)" % (err, when, len(lg)))
                        continue
                    inj = [l for l in lines if "(INJECTED)" in l]
                    ctx.count("strace_runs", 1)
                    ctx.count("strace_injected_calls_observed", len(inj))
                    ctx.count("evaluations", 1)
                    ctx.add_classes([("strace", err, when)])
                    desc = {"build": "prod-shared-strace", "inject": "%s when=%s" % (err, when), "stdout": out, "strace": lines[-8:]}
                    if not inj:
                        ctx.inconclusive.append("strace injection %s did not fire" % err)
                    elif rc != 0:
                        ctx.violation("e2e-crash:%s" % err, desc)
                    elif ("status=%d" % exp_status) not in out:
                        ctx.violation("e2e-status:%s" % ("transient-not-retried" if exp_status else "permanent-reported-as-seeded"), desc)
                    elif "usable=1" not in out or "blocks_differ=1" not in out:
                        ctx.violation("e2e-unusable-after-fault:%s" % err, desc)
                    elif len(inj) != exp_inj and exp_status == 1:
                        ctx.violation("e2e-retry-count:%s" % err, desc)
                    elif exp_status == 0 and len([l for l in lines if re.search(r", 32, 0\)", l)]) > 3:
                        ctx.violation("e2e-keeps-calling-after-permanent-error:%s" % err, desc)
                    if len(ctx.samples) < 12:
                        ctx.samples.append({"h": "strace-e2e", "inject": "%s when=%s" % (err, when), "stdout": out.strip(), "injected_lines": len(inj)})
    ctx.rule = ("fault space = finite sequences over {EINTR, EAGAIN, permanent error, success} returned by the OS entropy call. For each of four build "
                "variants of the entropy source (getrandom(), getentropy(), raw syscall(SYS_getrandom), /dev/urandom open/read/close; selected by scratch "
                "config.h files, ASan/UBSan twins, thorough: MSan) and for the cmake-built production object: ALL prefixes of length <= K over {EINTR, EAGAIN} "
                "(/dev/urandom: also short read, K <= 6) x end in {success, EPERM, ENOSYS, EFAULT, EIO, EINVAL (, open fails)}, plus all-EINTR prefixes of 1000 "
                "and 100000 (thorough: 2^24+5, 2^32+5), and every errno value 1..133 as the permanent error (alone and after one EINTR); errno is preset to EINTR / EAGAIN / 0 / EPERM before each script; nanosleep/sleep/usleep are scripted (a pause of an hour or more between attempts is reported). Oracle: exact OS-call count (termination), status, bytes == OS bytes / zeroed defined buffer, fd census, open/close balance; every "
                "5th script group goes through tinyjambu_prng_init and the shadow DRBG. End to end: production .so under strace -e inject (INJECTED lines prove firing). "
                "class = (script index, end, via_prng).")
    ctx.exhaustive = True
    ctx.extra_cov["exhaustive_subspace"] = "all transient prefixes of length <= %d x 6 endings per build variant" % K
    ctx.assumptions += ["EOF from /dev/urandom and short getrandom() returns are outside the property's fault alphabet",
                        "libc-boundary interposition assumes the library reaches the OS through getrandom/getentropy/syscall/open/read/close"]


# ---------------------------------------------------------------------------------- C20

@check("C20", "exploration", floor=3000)
def c20(ctx):
    import subprocess
    from concurrent.futures import ThreadPoolExecutor
    load_replay(ctx)
    NF, NC = ctx.q((6000, 300), (200000, 1000))
    cfg_bz = ctx.make_config("bzero", BASE_CFG + ["HAVE_GETRANDOM"])
    cfg_fb = ctx.make_config("fallback", [m for m in BASE_CFG if m != "HAVE_EXPLICIT_BZERO"] + ["HAVE_GETRANDOM"])
    opts = ctx.q(["-O2"], ["-O0", "-O1", "-O2", "-O3", "-Os"])
    builds = build_set(ctx, ["prod", "asan-gcc"])
    for cc in ("gcc", "clang"):
        for o in opts:
            for cn, cd in (("bzero", cfg_bz), ("fallback", cfg_fb)):
                n = "%s%s-%s" % (cc, o, cn)
                builds.append({"tag": n, "lib": ctx.lib(n, cc, [o], cfg=cd), "cc": cc, "hflags": []})
    n = "asan-gcc-fallback"
    builds.append({"tag": n, "lib": ctx.lib(n, "gcc", asan_flags("gcc"), cfg=cfg_fb), "cc": "gcc", "hflags": asan_flags("gcc")})
    # strict ISO C language mode (cmake -DCMAKE_C_EXTENSIONS=OFF): extensions such as explicit_bzero are then only
    # declared if the source asks for them
    for cc in ("gcc", "clang"):
        for o in ctx.q(["-O2"], ["-O1", "-O2", "-O3", "-Os"]):
            for cn, cd in (("bzero", cfg_bz), ("fallback", cfg_fb)):
                n = "%s%s-std=c99-%s" % (cc, o, cn)
                builds.append({"tag": n, "lib": ctx.lib(n.replace("=", "_"), cc, [o, "-std=c99", "-w"], cfg=cd), "cc": cc, "hflags": []})
    jobs = []
    for b in builds:
        exe = ctx.harness("h_erase-" + b["tag"], "h_erase.c", b["lib"], cc=b["cc"], flags=b["hflags"], with_model=False)
        for j in batch_jobs(ctx, exe, b["tag"], ["--mode", "free", "--p1", NF], 4):
            j["env"] = dict(j.get("env") or {}, VERIF_SPECIAL=SPECIAL)      # + hash states holding rare chaining values (corpus), then freed
            jobs.append(j)
        big = 1 if b["tag"] in ("prod-cmake-Release", "gcc-O2-bzero", "gcc-O2-fallback", "clang-O2-fallback") else 0     # 2..4 GiB cases: a few builds only
        jobs += batch_jobs(ctx, exe, b["tag"], ["--mode", "clean", "--p1", NC, "--p2", big], 4)
    ctx.run_jobs(jobs, timeout=1800)

    # ---- wipe survival in unity / LTO builds, both configurations of the primitive, with positive controls
    if not ctx.replay:
        clean_src = REPO + "/src/backend/tinyjambu-clean.c"
        combos = []
        for cc in ("gcc", "clang"):
            for o in (["-O0"], ["-O1"], ["-O2"], ["-O3"], ["-Os"], ["-O2", "-flto"]):
                for cn, cd in (("explicit_bzero", cfg_bz), ("volatile-fallback", cfg_fb)):
                    combos.append((cc, o, cn, cd))

        def probe(c):
            cc, o, cn, cd = c
            exe = os.path.join(ctx.scratch, "wp-%s%s-%s" % (cc, "".join(o), cn))
            pr = subprocess.run([cc] + o + ["-DHAVE_CONFIG_H", "-I" + cd, "-DCLEAN_SRC=\"%s\"" % clean_src, VERIF + "/harness/wipe_probe.c",
                                 "-Wl,-z,now", "-o", exe], stdout=subprocess.PIPE, stderr=subprocess.PIPE)
            if pr.returncode:
                return c, None, pr.stderr.decode()[-500:]
            pr = subprocess.run([exe], stdout=subprocess.PIPE, stderr=subprocess.PIPE, timeout=60)
            return c, pr.stdout.decode(), pr.stderr.decode()[-300:]
        with ThreadPoolExecutor(NCPU) as ex:
            res = list(ex.map(probe, combos))
        ctl_seen = 0
        for (cc, o, cn, cd), out, err in res:
            tag = "%s %s %s" % (cc, " ".join(o), cn)
            if out is None:
                ctx.inconclusive.append("wipe probe failed to build for %s: %s" % (tag, err))
                continue
            vals = {}
            for l in out.splitlines():
                parts = l.split()
                if len(parts) == 3:
                    vals[parts[0]] = (int(parts[1].split("=")[1]), int(parts[2].split("=")[1]))
            ctx.count("wipe_probe_configurations", 1)
            ctx.count("evaluations", 1)
            ctx.add_classes([("wipe", cc, tuple(o), cn)])
            if "real" not in vals:
                ctx.inconclusive.append("wipe probe gave no result for %s" % tag)
                continue
            if vals["real"][0] != 64:
                ctx.violation("wipe-optimised-away:%s" % cn,
                              {"build": "wipe-probe " + tag, "detail": "after tinyjambu_clean(buf, 64) on a dying local buffer %d bytes are zero and %d still hold the secret (unity build, optimiser sees the primitive)" % vals["real"]})
            if o != ["-O0"]:
                for ctl in ("memset", "loop"):
                    if vals.get(ctl, (64, 0))[1] >= 32:
                        ctl_seen += 1
            if len(ctx.samples) < 12 and o in (["-O2"], ["-O2", "-flto"]):
                ctx.samples.append({"h": "wipe-probe", "config": tag, "result": out.strip().replace("\n", "; ")})
        ctx.count("positive_control_weak_wipes_caught", ctl_seen)
        # ---- free functions under link-time optimisation: all library sources + probe in one LTO link
        lto = []
        for cc, fl in (("gcc", ["-O2", "-flto"]), ("gcc", ["-O3", "-flto"]), ("clang", ["-O2", "-flto", "-fuse-ld=lld"])):
            for cn, cd in (("explicit_bzero", cfg_bz), ("volatile-fallback", cfg_fb)):
                lto.append((cc, fl, cn, cd))

        def fprobe(c):
            cc, fl, cn, cd = c
            exe = os.path.join(ctx.scratch, "fp-%s%s-%s" % (cc, "".join(fl).replace("=", ""), cn))
            pr = subprocess.run([cc] + fl + ["-DHAVE_CONFIG_H", "-I" + cd, "-I" + REPO + "/src", VERIF + "/harness/free_probe.c"] + ctx.sources() +
                                ["-Wl,-z,now", "-o", exe], stdout=subprocess.PIPE, stderr=subprocess.PIPE)
            if pr.returncode:
                return c, None, pr.stderr.decode()[-600:]
            pr = subprocess.run([exe], stdout=subprocess.PIPE, stderr=subprocess.PIPE, timeout=60)
            return c, pr.stdout.decode(), pr.stderr.decode()[-300:]
        with ThreadPoolExecutor(NCPU) as ex:
            fres = list(ex.map(fprobe, lto))
        fctl = 0
        for (cc, fl, cn, cd), out, err in fres:
            tag = "%s %s %s" % (cc, " ".join(fl), cn)
            if out is None:
                ctx.inconclusive.append("LTO free-function probe failed to build for %s: %s" % (tag, err))
                continue
            vals = {}
            for l in out.splitlines():
                m = __import__("re").match(r"(\w+) nonzero=(\d+) of (\d+)", l)
                if m:
                    vals[m.group(1)] = (int(m.group(2)), int(m.group(3)))
            ctx.count("lto_free_probe_configurations", 1)
            ctx.count("evaluations", 1)
            ctx.add_classes([("lto-free", cc, tuple(fl), cn)])
            for t in ("hash", "hmac", "hkdf", "prng"):
                if t not in vals:
                    ctx.inconclusive.append("LTO free-function probe gave no result for %s in %s" % (t, tag))
                elif vals[t][0]:
                    ctx.violation("free-wipe-optimised-away:%s" % t,
                                  {"build": "lto-free-probe " + tag, "detail": "%d of %d bytes of a %s state object are non-zero after tinyjambu_%s_free() when the whole library is "
                                   "linked with -flto and the object dies right after the call" % (vals[t][0], vals[t][1], t, t)})
            if vals.get("control", (0, 0))[0] >= 32:
                fctl += 1
            if len(ctx.samples) < 12 and cc == "gcc" and fl[0] == "-O2":
                ctx.samples.append({"h": "lto-free-probe", "config": tag, "result": out.strip().replace("\n", "; ")})
        ctx.count("lto_positive_controls_caught", fctl)
        if fctl < 3:
            ctx.inconclusive.append("LTO positive control (memset wipe of a dying state) was not seen to be removed: the free-function probe is blind here")
        if ctl_seen < 8:
            ctx.inconclusive.append("positive controls (memset / plain loop wipes) were not seen to fail at >= -O1: the probe cannot see a deleted wipe here")
    abi.ilp32_monitor(ctx, ['clean'])
    ctx.rule = ("(a) 4 state types x random histories (0..8 operations incl. finalize/reinit/exhaustion/reseed, cut at a random point) then the free "
                "function; all sizeof(public state) bytes read back; object against a guard page or between canaries; (b) tinyjambu_clean for EVERY "
                "(offset 0..15, size 0..N) + sizes {4095,4096,4097,65535,65536,1 MiB+3} and 2^31+5 (thorough also 2^32-1) on four builds, junk arena compared byte by byte; every third case ends exactly "
                "at a guard page; (c) wipe-survival probe: unity TU including /repo's tinyjambu-clean.c, {explicit_bzero, volatile fallback} x {gcc, clang} x "
                "{-O0,-O1,-O2,-O3,-Os,-O2 -flto}; the dead buffer is read at its recorded address; memset/plain-loop controls must be seen to fail; (d) the four free functions with ALL library sources linked -flto ({gcc -O2, gcc -O3, clang -O2} x both configurations): a state object built on a dying stack frame is read back after its free function; a memset control must be seen to be removed. "
                "Configurations of (a),(b): cmake production library, ASan/UBSan, {gcc, clang} x opt levels x {explicit_bzero, fallback}, and the same in strict ISO C mode (-std=c99); half of the clean calls leave recognisable garbage in the upper half of the 64-bit size register, as a caller passing `unsigned` may. "
                "class = (type, history index) | (offset, size) | probe configuration.")
    ctx.rule += ' Supplementary ILP32 monitor: the portable sources compiled with gcc/clang -m32 (4-byte size_t, pointers and long; freestanding runtime, every buffer against a PROT_NONE page) and the production archive run the same deterministic case list (harness/h_abi.c, section clean) as the model; the outputs are compared line by line.'
    ctx.rule += ' Corpus replay: every entry of model/pinned/special.txt (inputs found with the model alone for which an internal word - chaining value, keystream, tag half, DRBG state - is 0 / ffffffff / equal to its neighbour, or a forged SIV tag is wrong in a structured way: probability about 2^-32 per random input) goes through the same oracle.'
    ctx.exhaustive = False
    ctx.assumptions += ["copies of secrets in registers or compiler spills outside the wiped buffer are not part of the property",
                        "SecureZeroMemory / memset_s configurations do not exist on this host and are not run"]


# ---------------------------------------------------------------------------------- C19

def parse_tsan_logs(ctx, prefix, tag):
    """Counts ThreadSanitizer report blocks in log files, dedupes by (kind, top library frames)."""
    import glob, re
    reports = {}
    nblocks = 0
    for path in glob.glob(prefix + "*"):
        txt = open(path, errors="replace").read()
        for block in txt.split("==================")[1:]:
            if "WARNING: ThreadSanitizer" not in block:
                continue
            nblocks += 1
            kind = re.search(r"WARNING: ThreadSanitizer: ([^\n(]+)", block).group(1).strip().replace(" ", "-")
            frames = re.findall(r"#\d+ (\w+) [^\n]*?([\w.-]+\.[ch]):\d+", block)
            libframes = [f for f, src in frames if f.startswith("tinyjambu") or src.startswith("tinyjambu")]
            stacks = sorted(set(libframes[:2])) if libframes else ["harness-only"]
            key = "tsan:%s:%s" % (kind, "+".join(stacks))
            reports.setdefault(key, block[:3000])
    ctx.count("tsan_report_blocks", nblocks)
    for key, block in reports.items():
        if "harness-only" in key:
            ctx.inconclusive.append("ThreadSanitizer report without a library frame (harness defect?) in %s: %s" % (tag, block[:600]))
        else:
            ctx.violation(key, {"build": tag, "report": block})


@check("C19", "exploration", floor=5000)
def c19(ctx):
    import subprocess, re
    load_replay(ctx)
    N, T, reps = ctx.q((1400, 16, 2), (2800, 16, 10))
    p = ctx.prod()
    # ---- monitor 1: TSan differential stress
    tsan_builds = [("tsan-gcc", "gcc"), ("tsan-clang", "clang")] if (ctx.thorough or True) else []
    jobs = []
    for tag, cc in tsan_builds:
        fl = ["-O1"] + core.SAN_TSAN
        lib = ctx.lib(tag, cc, fl)
        exe = ctx.harness("h_conc-" + tag, "h_conc.c", lib, cc=cc, flags=fl, with_model=False)
        for tt in ([T] if not ctx.thorough else [2, 4, 16, 32, 64]):
            logp = os.path.join(ctx.scratch, "tsanlog-%s-%d" % (tag, tt))
            for j in batch_jobs(ctx, exe, tag, ["--mode", "stress", "--p1", N, "--p2", tt, "--p3", reps], 1):
                j["env"] = {"TSAN_OPTIONS": "halt_on_error=0:exitcode=0:log_path=%s:second_deadlock_stack=1" % logp}
                j["logp"] = logp
                jobs.append(j)
    # uninstrumented production object: more operations, same differential oracle
    exe = ctx.harness("h_conc-prod", "h_conc.c", {"static": p["static"]}, cc="gcc", with_model=False)
    for tt in ([16, 64] if not ctx.thorough else [2, 4, 16, 64]):
        jobs += batch_jobs(ctx, exe, "prod-cmake-Release", ["--mode", "stress", "--p1", N * 2, "--p2", tt, "--p3", reps * 2], 1)
    ctx.run_jobs(jobs, timeout=2400, workers=3)
    for j in jobs:
        if j.get("logp"):
            parse_tsan_logs(ctx, j["logp"], j["tag"])
    if not ctx.replay:
        ov, tot = ctx.stats.get("operations_that_overlapped_another", 0), ctx.stats.get("concurrent_operations_compared", 0)
        if tot == 0 or ov < tot // 10:
            ctx.inconclusive.append("too few operations overlapped in time (%d of %d): schedule coverage insufficient" % (ov, tot))
        if ctx.maxes.get("distinct_overlapping_type_pairs", 0) < 60:
            ctx.inconclusive.append("only %d distinct overlapping operation-type pairs observed" % ctx.maxes.get("distinct_overlapping_type_pairs", 0))

    # ---- monitor 1b: helgrind on the UNINSTRUMENTED production objects (happens-before analysis needs no actual overlap)
    if not ctx.replay:
        import re as _re
        hj = [{"cmd": ["valgrind", "--tool=helgrind", "-q", "--error-exitcode=0", "--history-level=approx", exe, "--seed", str(ctx.seed), "--mode", "stress",
                       "--p1", str(ctx.q(420, 1400)), "--p2", str(tt), "--p3", "1"], "tag": "prod-cmake-Release+helgrind-T%d" % tt} for tt in ctx.q([4], [2, 8])]
        res = ctx.run_jobs(hj, timeout=2400)
        for job, rc, out, err, dt in res:
            if rc is None:
                continue
            ctx.count("helgrind_processes", 1)
            blocks = _re.split(r"==\d+== -{20,}", err or "")
            seen = {}
            for b in blocks:
                if "Possible data race" not in b:
                    continue
                ctx.count("helgrind_race_reports", 1)
                fns = _re.findall(r"(?:at|by) 0x[0-9A-F]+: (tinyjambu_\w+)", b)
                if not fns:
                    continue        # harness-only frames (atomics of the overlap meter): not the library
                key = "helgrind:data-race:" + "+".join(sorted(set(fns[:2])))
                seen.setdefault(key, b[:2500])
            for key, b in seen.items():
                ctx.violation(key, {"build": job["tag"], "cmd": job["cmd"], "report": b})
    # ---- monitor 2: writable-segment snapshot on the production shared library
    exe_so = ctx.harness("h_conc-so", "h_conc.c", None, cc="gcc", with_model=False,
                         ldflags=["-L" + p["sodir"], "-ltinyjambu", "-Wl,-rpath," + p["sodir"]])
    js = batch_jobs(ctx, exe_so, "prod-shared-snapshot", ["--mode", "snapshot", "--p1", N], 1)
    for j in js:
        j["env"] = {"LD_BIND_NOW": "1"}
    # ---- monitor 3: allocator interposition on the production static library
    exe_h = ctx.harness("h_conc-heap", "h_conc.c", {"static": p["static"]}, cc="gcc", with_model=False, defs=["VERIF_HEAPMON"])
    js += batch_jobs(ctx, exe_h, "prod-heapmon", ["--mode", "heap", "--p1", N], 1)
    ctx.run_jobs(js, timeout=900)
    if not ctx.replay and ctx.stats.get("allocator_calls_seen_outside_library", 0) < 1:
        ctx.inconclusive.append("allocator interposer saw no allocator call at all (control failed)")

    # ---- monitor 4: history independence across processes and orders
    if not ctx.replay:
        files = []
        js = []
        for order in (0, 1, 2, 3):
            path = os.path.join(ctx.scratch, "results-%d.bin" % order)
            files.append(path)
            js.append({"cmd": [exe, "--seed", str(ctx.seed), "--mode", "serial", "--p1", str(N), "--p3", str(order)], "tag": "prod-serial-order%d" % order,
                       "env": {"VERIF_RESULTS": path}})
        singles = list(range(0, N, max(1, N // 40)))
        for op in singles:
            path = os.path.join(ctx.scratch, "single-%d.bin" % op)
            js.append({"cmd": [exe, "--seed", str(ctx.seed), "--mode", "serial", "--p1", str(N), "--p3", "0", "--only", str(op)], "tag": "prod-fresh-process-op%d" % op,
                       "env": {"VERIF_RESULTS": path}})
        ctx.run_jobs(js, timeout=600)
        try:
            base = open(files[0], "rb").read()
            for order, f in enumerate(files[1:], 1):
                other = open(f, "rb").read()
                ctx.count("history_orders_compared", 1)
                if other != base:
                    bad = next(i for i in range(N) if other[32 * i:32 * i + 32] != base[32 * i:32 * i + 32])
                    ctx.violation("result-depends-on-earlier-calls", {"build": "prod-serial", "detail": "operation %d gives a different result when the table is executed in order #%d" % (bad, order)})
            for op in singles:
                one = open(os.path.join(ctx.scratch, "single-%d.bin" % op), "rb").read()
                ctx.count("fresh_process_comparisons", 1)
                if one[32 * op:32 * op + 32] != base[32 * op:32 * op + 32]:
                    ctx.violation("result-depends-on-earlier-calls", {"build": "prod-serial", "detail": "operation %d alone in a fresh process differs from its result after %d unrelated calls" % (op, op)})
        except FileNotFoundError as e:
            ctx.inconclusive.append("serial result file missing: %s" % e)

    # ---- supplementary census (static, same verdict channel)
    census = [("prod-static", p["static"])] if not ctx.replay else []
    if not ctx.replay:
        # the same census over the other legitimate configurations of the sources (state that exists only there is state all the same)
        for name, cfg, pi in trng_variants(ctx):
            census.append(("cfg-" + name, ctx.lib("cen-" + name, "gcc", ["-O2"], cfg=ctx.make_config(name, cfg), pre_include=pi)["static"]))
        census.append(("cfg-no-explicit_bzero", ctx.lib("cen-fallback", "gcc", ["-O2"], cfg=ctx.make_config("fallback", [m for m in BASE_CFG if m != "HAVE_EXPLICIT_BZERO"] + ["HAVE_GETRANDOM"]))["static"]))
        for n in ["gcc-O0", "gcc-Os", "clang-O2", "gcc-O3+DNDEBUG", "gcc-O2+std=c99+w"]:
            census.append((n, build_set(ctx, [n])[0]["lib"]["static"]))
    ctx.extra_cov["census"] = {}
    for cname, archive in census:
        out = ctx.sh(["nm", "-A", archive]).stdout.decode()
        dsyms, alloc, envimp = [], [], []
        for l in out.splitlines():
            parts = l.split()
            if len(parts) >= 2 and parts[-2] == "U" and parts[-1] in ("malloc", "calloc", "realloc", "free", "posix_memalign", "mmap", "sbrk", "aligned_alloc", "strdup"):
                alloc.append(l)
            # imports through which results could come to depend on the process environment or on hidden shared state
            if len(parts) >= 2 and parts[-2] == "U" and re.match(r"^(getenv|secure_getenv|setenv|putenv|time|clock|clock_gettime|gettimeofday|localtime(_r)?|gmtime(_r)?|setlocale|"
                                                                 r"getpid|getppid|gettid|fork|vfork|signal|sigaction|sigprocmask|raise|alarm|setitimer|rand|srand|rand_r|random|srandom|"
                                                                 r"drand48|lrand48|pthread_\w+|fopen|fprintf|printf|puts|fputs|fwrite|fread|getc|fgets|sleep|usleep|nanosleep|dlopen|dlsym|"
                                                                 r"__tls_get_addr|atexit|on_exit|setjmp|longjmp)$", parts[-1]):
                envimp.append(l)
        # writable sections only (.data.rel.ro* is read-only once relocated and is not state)
        od = ctx.sh(["objdump", "-t", archive]).stdout.decode()
        ctx.count("census_archives", 1)
        ctx.count("census_symbols_examined", len(od.splitlines()))
        for l in od.splitlines():
            m = re.match(r"^[0-9a-f]+\s+(.{7})\s+(\S+)\s+[0-9a-f]+\s+(\S+)$", l)
            if not m:
                continue
            flags, sec, name = m.group(1), m.group(2), m.group(3)
            if name.startswith(".") or "d" in flags.replace(" ", "")[1:] or ("O" not in flags and sec != "*COM*" and not re.match(r"^\.t(data|bss)", sec)):
                continue            # objects only (not section / file symbols); thread-local objects carry no 'O' flag
            if sec == "*COM*" or re.match(r"^\.(data|bss|tdata|tbss)(\.|$)", sec) and not sec.startswith(".data.rel.ro"):
                dsyms.append("%s %s" % (sec, name))
        ctx.extra_cov["census"][cname] = {"writable_data_symbols": dsyms[:10], "allocator_imports": alloc[:10],
                                   "undefined_imports": sorted(set(l.split()[-1] for l in out.splitlines() if len(l.split()) >= 2 and l.split()[-2] == "U" and not l.split()[-1].startswith("tinyjambu")))}
        for l in dsyms:
            ctx.violation("census-writable-static-data:" + l.split()[-1], {"build": cname + "-nm", "detail": "object file defines writable static/global data: " + l})
        for l in alloc:
            ctx.violation("census-allocator-import:" + l.split()[-1], {"build": cname + "-nm", "detail": "object file imports an allocator: " + l})
        for l in envimp:
            ctx.violation("census-environment-import:" + l.split()[-1], {"build": cname + "-nm", "detail": "object file imports a function through which results depend on the process environment, the clock, signals, other threads or hidden library state: " + l})
    ctx.rule = ("table of N operations over 14 operation types (6 AEAD/SIV encrypt+decrypt+reject, hash, HMAC, HKDF one-shot and incremental, PBKDF2, PRNG with "
                "callback, PRNG with the system source (OS call interposed by a per-thread deterministic stub), clean+free), inputs from (seed, op index), all on "
                "private stack objects. Monitor 1: serial pass, then T threads each run a random permutation of the whole table (barrier start, yield/nanosleep "
                "jitter between calls); every result compared with serial; gcc and clang -fsanitize=thread builds (reports read from logs, deduplicated, library "
                "frame required), the uninstrumented production object, and the production object under valgrind helgrind (race reports with a library frame). evaluations = concurrent operation executions compared; distinct_nontrivial = distinct "
                "(type, type) pairs observed in flight simultaneously + snapshot/heap operation types. Monitor 2: hash of libtinyjambu.so's writable mappings "
                "before/after every operation (LD_BIND_NOW=1). Monitor 3: malloc/calloc/realloc/free/posix_memalign/mmap interposed, any call inside a library call "
                "is a violation. Monitor 4: the table in 4 different orders in separate processes + 40 operations alone in fresh processes give identical results. "
                "Census: nm/objdump show no writable data symbols (.data/.bss/.tdata/.tbss/COMMON), no allocator imports and no imports of environment / clock / signal / thread / stdio / PRNG functions in the production archive and in 10 other configurations of the same sources (the four system-entropy variants, no explicit_bzero, -O0, -Os, clang, NDEBUG, strict C99).")
    ctx.exhaustive = False
    ctx.assumptions += ["ThreadSanitizer only sees interleavings that happened; the snapshot, census and heap monitors do not depend on scheduling",
                        "concurrent use of the same object is outside the property"]


# ---------------------------------------------------------------------------------- C06

def memcheck_report(err):
    """(key, excerpt) for the first memcheck error in valgrind's stderr, or None."""
    import re
    m = re.search(r"==\d+== (Conditional jump or move depends on uninitialised value|Use of uninitialised value[^\n]*|Invalid (?:read|write) of size \d+|"
                  r"Syscall param [^\n]*|Source and destination overlap[^\n]*|Uninitialised byte\(s\) found during client check request)", err)
    if not m:
        return None
    tail = err[m.start():m.start() + 2500]
    fn = re.search(r"(?:at|by) 0x[0-9A-F]+: (tinyjambu_\w+)", tail)
    kind = re.sub(r"\d+", "N", m.group(1)).split(" depends")[0].replace(" ", "-")[:48]
    return "memcheck:%s:%s" % (kind, fn.group(1) if fn else "?"), tail


def valgrind_jobs(ctx, exe, tag, args, nb, extra_vg=()):
    jobs = batch_jobs(ctx, exe, tag, args, nb)
    for j in jobs:
        j["cmd"] = ["valgrind", "-q", "--error-exitcode=9", "--track-origins=yes", "--expensive-definedness-checks=yes", "--error-limit=no"] + list(extra_vg) + j["cmd"]
    return jobs


def run_valgrind(ctx, jobs, timeout=3000):
    res = ctx.run_jobs(jobs, timeout=timeout)
    for job, rc, out, err, dt in res:
        if rc is None:
            continue
        rep = memcheck_report(err)
        if rep:
            ctx.violation(rep[0], {"build": job["tag"], "cmd": job["cmd"], "report": rep[1]})
        elif rc == 9:
            ctx.violation("memcheck:unclassified", {"build": job["tag"], "cmd": job["cmd"], "report": err[-3000:]})
        ctx.count("valgrind_processes", 1)
    return res


@check("C06", "exploration", floor=2000)
def c06(ctx):
    load_replay(ctx)
    W, NL = ctx.q((12, 7), (48, 42))
    names = ctx.q(["prod", "gcc-O2", "gcc-Os", "clang-Os", "asan-gcc", "asan-clang", "asan-gcc-Os", "msan"],
                  ["prod", "gcc-O0", "gcc-O1", "gcc-O2", "gcc-O3", "gcc-Os", "clang-O0", "clang-O2", "clang-O3", "clang-Os", "gcc-O2+funsigned-char", "gcc-O2+std=c99+w",
                   "asan-gcc", "asan-clang", "asan-gcc-O3", "asan-gcc-Os", "asan-clang-Os", "asan-gcc-O0", "msan"])
    builds = build_set(ctx, names)
    jobs = []
    for b in builds:
        exe = ctx.harness("h_mem-" + b["tag"], "h_mem.c", b["lib"], cc=b["cc"], flags=b["hflags"], with_model=False)
        jobs += batch_jobs(ctx, exe, b["tag"], ["--mode", "all", "--p1", W, "--p3", NL], ctx.q(4, 8))
    ctx.run_jobs(jobs, timeout=3000)
    # valgrind memcheck on the production objects: outputs/states/dead stack marked undefined before each call
    p = ctx.prod()
    exe = ctx.harness("h_mem-prod-vg", "h_mem.c", {"static": p["static"]}, cc="gcc", with_model=False, defs=["VERIF_VALGRIND"])
    run_valgrind(ctx, valgrind_jobs(ctx, exe, "prod-cmake-Release+memcheck", ["--mode", "all", "--p1", ctx.q(5, 24), "--p3", ctx.q(0, 7)], 16))
    # every entry point with 1 MiB inputs on a 128 KiB thread stack (a stack need that grows with an input length overflows it)
    run_harness_on(ctx, "h_stack.c", build_set(ctx, ["prod", "gcc-O0"]), [], 16, hname="h_stack", timeout=1800)
    abi.ilp32_monitor(ctx, ['aead', 'siv', 'hash', 'hmac', 'hkdf', 'pbkdf2', 'prng', 'clean'], memcheck=True)
    ctx.rule = ("contract workload over the whole public API: 6 AEAD/SIV variants x (adlen, mlen) in [0..W]^2 (separate / encrypt-in-place / decrypt-in-place, "
                "accepted and rejected packets), tinyjambu_hash 0..300 (quick 120), incremental hash with chunk schedules, HMAC key lengths 0..200 x 9 message "
                "lengths one-shot and incremental (reinit), HKDF one-shot 0..200 + every 32k-1/32k/32k+1 up to 8160 + {8159,8160,8161,8192,65536,SIZE_MAX} and "
                "incremental totals crossing 8160, PBKDF2 outlen 0..100 and 8190, PRNG (scripted callback with short deliveries) generate 0..100/1000/5000 + feed + "
                "reseed + free, tinyjambu_clean 0..300, free functions on junk objects, large sizes 64 KiB+r and 1 MiB+r. Every buffer is exactly sized and placed "
                "end-guard / start-guard / mid+canary (offsets 0..7) rotating; inputs PROT_READ; NULL or guard-page pointer for zero lengths; state objects end at a "
                "guard page. Each case runs twice with different junk in outputs/states/dead stack (junk differential). Monitors: SIGSEGV classification on production "
                "objects, ASan+UBSan (gcc, clang), MSan with definedness assertions on every output, memcheck on the production objects. "
                "class = (api, length tuple, placement rotation).")
    ctx.rule += ' Supplementary ILP32 monitor: the portable sources compiled -m32 (4-byte size_t/pointers; freestanding runtime) run all eight sections of harness/h_abi.c with every buffer abutting a PROT_NONE page (a fault ends the output early and is reported with the case), and again under valgrind memcheck for x86 (definedness of every branch and address).'
    ctx.rule += ' Small-stack monitor: each of 16 entry-point groups with 1 MiB and with 16-byte inputs on a 128 KiB thread stack in a forked child (production and -O0 objects); a child killed by a signal is a violation; the stack bytes dirtied per call are recorded.'
    ctx.exhaustive = False
    ctx.assumptions += ["UBSan nonnull-attribute (and clang pointer-overflow for NULL+0) are disabled: memcpy/explicit_bzero(NULL, .., 0) on permitted NULL/0 arguments touches no byte and is outside the property",
                        "red-zone tools cannot see intra-object overflows inside the library's private structs", "lengths >= 2^32 are run only for AEAD/SIV (C01/C02 thorough), not for hash/KDF/PRNG"]


# ---------------------------------------------------------------------------------- C07

def memcheck_blocks(err):
    """All memcheck taint errors with the SHAPE announced before them: list of (kind, libfn or None, shape, text)."""
    import re
    out = []
    shape = None
    lines = err.splitlines()
    i = 0
    pat = re.compile(r"==\d+== (Conditional jump or move depends on uninitialised value|Use of uninitialised value of size \d+|Syscall param [^\n]*uninitialised[^\n]*)")
    while i < len(lines):
        l = lines[i]
        ms = re.match(r"\*\*\d+\*\* SHAPE (.*)", l)
        if ms:
            shape = ms.group(1)
        m = pat.match(l)
        if m:
            blk = [l]
            i += 1
            while i < len(lines) and re.match(r"==\d+==\s+(at|by) ", lines[i]):
                blk.append(lines[i]); i += 1
            text = "\n".join(blk)
            fn = re.search(r"(?:at|by) 0x[0-9A-F]+: (tinyjambu_\w+)", text)
            kind = "branch" if m.group(1).startswith("Conditional") else "address" if m.group(1).startswith("Use") else "syscall-param"
            out.append((kind, fn.group(1) if fn else None, shape, text))
            continue
        i += 1
    return out


@check("C07", "exploration", floor=300)
def c07(ctx):
    load_replay(ctx)
    p = ctx.prod()
    cfgs = [("prod-cmake-Release(gcc -O3)", {"static": p["static"]}, "gcc")]
    cfgs.append(("gcc-O2", ctx.lib("ct-gcc-O2", "gcc", ["-O2", "-g"]), "gcc"))
    # the volatile-loop wipe (no explicit_bzero in config.h): it walks over every secret the library erases
    cfg_fb = ctx.make_config("fallback", [m for m in BASE_CFG if m != "HAVE_EXPLICIT_BZERO"] + ["HAVE_GETRANDOM"])
    cfgs.append(("gcc-O2-no-explicit_bzero", ctx.lib("ct-gcc-O2-fb", "gcc", ["-O2", "-g"], cfg=cfg_fb), "gcc"))
    if ctx.thorough:
        cfgs.append(("clang-O2-no-explicit_bzero", ctx.lib("ct-clang-O2-fb", "clang", ["-O2", "-g", "-gdwarf-4"], cfg=cfg_fb), "clang"))
        cfgs.append(("gcc-Os", ctx.lib("ct-gcc-Os", "gcc", ["-Os", "-g"]), "gcc"))
        cfgs.append(("gcc-O3-NDEBUG", ctx.lib("ct-gcc-O3-nd", "gcc", ["-O3", "-g", "-DNDEBUG"]), "gcc"))
    if ctx.thorough or True:
        cfgs.append(("clang-O2", ctx.lib("ct-clang-O2", "clang", ["-O2", "-g", "-gdwarf-4"]), "clang"))
        cfgs.append(("clang-O3", ctx.lib("ct-clang-O3", "clang", ["-O3", "-g", "-gdwarf-4"]), "clang"))
    jobs, ctl = [], []
    vg = ["valgrind", "--error-exitcode=0", "--expensive-definedness-checks=yes", "--error-limit=no", "--num-callers=12", "-q"]
    for tag, lib, cc in cfgs:
        exe = ctx.harness("h_ct-" + tag.split("(")[0], "h_ct.c", lib, cc="gcc", flags=["-gdwarf-4"], with_model=False)
        for j in batch_jobs(ctx, exe, tag, ["--mode", "shapes"], ctx.q(4, 4)):
            j["cmd"] = vg + j["cmd"]
            jobs.append(j)
        if not ctx.replay:
            ctl.append({"cmd": vg + [exe, "--mode", "control"], "tag": tag + "/control"})
    res = ctx.run_jobs(jobs, timeout=3000)
    for job, rc, out, err, dt in res:
        if rc is None:
            continue
        for kind, fn, shape, text in memcheck_blocks(err):
            if fn:
                ctx.violation("secret-dependent-%s:%s" % (kind, fn), {"build": job["tag"], "cmd": job["cmd"], "detail": {"case": core._j(shape) if shape else None}, "report": text})
            else:
                ctx.inconclusive.append("memcheck error without a library frame (harness defect?) in %s: %s" % (job["tag"], text[:400]))
        ctx.count("valgrind_processes", 1)
    # positive control: the monitor must be able to see a secret-dependent branch in every configuration
    if ctl:
        res = ctx.run_jobs(ctl, timeout=600, parse=False)
        seen = 0
        for job, rc, out, err, dt in res:
            blocks = memcheck_blocks(err or "")
            if any("leaky_compare" in b[3] for b in blocks):
                seen += 1
        ctx.count("positive_controls_flagged", seen)
        if seen != len(ctl):
            ctx.inconclusive.append("positive control (early-exit compare of a secret buffer) was flagged in %d of %d configurations" % (seen, len(ctl)))
    # ---- monitor B: trace equivalence under lackey on concrete executions
    if not ctx.replay:
        from . import lackey
        from concurrent.futures import ThreadPoolExecutor
        import random as _random
        tcfgs = cfgs[:1] if not ctx.thorough else cfgs
        for tag, lib, cc in tcfgs:
            exe = os.path.join(ctx.scratch, "ct_trace-" + tag.split("(")[0])
            ctx.sh(["gcc", "-O1", "-g", "-no-pie", "-I" + REPO + "/src", VERIF + "/harness/ct_trace.c", lib["static"], "-o", exe])
            nsh = int(ctx.sh([exe, "count"]).stdout.decode().strip())
            b, e = lackey.marker_addrs(exe)
            if b is None or e is None:
                raise core.Inconclusive("ct_trace markers not found")
            shapes = list(range(nsh)) if ctx.thorough else list(range(ctx.seed % 4, nsh, 4))
            rnd = _random.Random(ctx.seed * 7919 + 17)
            secrets = [bytes(rnd.getrandbits(8) for _ in range(256)) for _ in range(2)] + [bytes([0xFF]) * 256, bytes(256)]
            nsec = 4 if ctx.thorough else 3

            def group(sh):
                wd = os.path.join(ctx.scratch, "lk-%s-%d" % (tag.split("(")[0], sh))
                return sh, [lackey.trace_digest(exe, sh, wd, secrets[i], b, e) for i in range(nsec)]
            with ThreadPoolExecutor(NCPU) as ex:
                groups = list(ex.map(group, shapes + [-1]))
            for sh, ds in groups:
                if any(d[0] is None for d in ds) or ds[0][1] < 50:
                    ctx.inconclusive.append("lackey trace for shape %d (%s) could not be recorded" % (sh, tag))
                    continue
                same = len(set(d[0] for d in ds)) == 1
                if sh == -1:
                    ctx.count("trace_positive_controls_seen_differing", 0 if same else 1)
                    if same:
                        ctx.inconclusive.append("trace positive control (early-exit compare) produced identical traces in %s: monitor B is blind" % tag)
                    continue
                ctx.count("trace_groups_compared", 1)
                ctx.count("trace_lines_compared", sum(d[1] for d in ds))
                ctx.count("evaluations", 1)
                ctx.add_classes([("trace", tag, sh)])
                if not same:
                    ctx.violation("trace-differs-between-secrets:shape-%d" % sh,
                                  {"build": "lackey:" + tag, "detail": "shape %d: instruction/address trace between the markers differs for different secret bytes "
                                   "(lines per run: %s)" % (sh, [d[1] for d in ds])})
                elif len(ctx.samples) < 12 and sh % 23 == 0:
                    ctx.samples.append({"h": "lackey-trace", "config": tag, "shape": sh, "secrets": nsec, "trace_lines_per_run": ds[0][1], "identical": True})
    ctx.rule = ("public shapes: 12 AEAD/SIV entry points x adlen,mlen in {0,1,2,3,4,5,8,17} x verdict {accept, reject with the wrong tag byte at each index 0..7, "
                "reject via body}; check_tag directly for every differing byte index; hash lengths "
                "{0,1,15,16,17,31,32,33,100} x chunkings {one-shot,1,5,11,16}; HMAC key lengths {0,1,31,32,63,64,65,100} one-shot/streamed; HKDF outlen {1,32,33,100,8160} "
                "one-shot/incremental; PBKDF2 counts {0,1,2,3,10} x outlen {1,32,33,70}; PRNG init with full/short/zero delivery, generate {1,32,33,100,1100 (automatic "
                "reseed)}, feed, reseed, set-limit. Secrets (keys, plaintexts, passwords, IKM, entropy bytes as delivered in the callback, fed data) are marked undefined; "
                "memcheck (--expensive-definedness-checks) reports any branch / address / syscall parameter depending on them; a report with a library frame is a "
                "violation. Configurations: the cmake Release objects (gcc -O3), gcc -O2, gcc -O2 without explicit_bzero (volatile-loop wipe), clang -O2, clang -O3 (thorough: + clang without explicit_bzero, -Os, NDEBUG). Positive control per configuration. Monitor B: 95 shapes (every 4th in quick) each run under lackey with 3-4 different secret files (random, all-ones, all-zero) with ASLR off; the full instruction-address and data-address trace between two markers must be identical; an early-exit control must differ. class = shape.")
    ctx.exhaustive = False
    ctx.assumptions += ["valgrind's definedness propagation is trusted as taint tracking (under-taints through some vector idioms are possible)",
                        "instruction-latency channels are invisible; only control flow and addresses are decided, as the property is worded",
                        "assembly backends are not executed on this host (their control flow is observed in C05's interpreters)"]


# ---------------------------------------------------------------------------------- C05

EMU_TARGETS = ["avr5", "armv6", "armv6m", "armv7m", "riscv32e", "riscv32i", "riscv64i", "xtensa-call0", "xtensa-windowed"]


def generator_diff(ctx):
    """C05 monitor 3: rebuild the bundled generators (their own Makefiles) in scratch, run them exactly as the
    `generate` rules do, compare byte for byte with the checked-in files.  Second build with ASan+UBSan."""
    import re, shutil, subprocess
    n_cmp = 0
    for variant, extra in (("plain", []), ("asan", ["CC=gcc -fsanitize=address,undefined -fno-sanitize-recover=all"])):
        root = os.path.join(ctx.scratch, "tools-" + variant)
        shutil.copytree(REPO + "/tools", root)
        for gen in ("genarm", "genriscv", "genxtensa"):
            d = os.path.join(root, gen)
            mk = os.path.join(d, "Makefile")
            if not os.path.exists(mk):
                ctx.violation("generator-missing:" + gen, {"build": "generators", "detail": "tools/%s/Makefile does not exist" % gen})
                continue
            shutil.rmtree(os.path.join(d, "bin"), ignore_errors=True)
            p = subprocess.run(["make", "-C", d, "all"] + extra, stdout=subprocess.PIPE, stderr=subprocess.PIPE)
            if p.returncode:
                ctx.violation("generator-build-failed:" + gen, {"build": "generators-" + variant, "report": p.stderr.decode()[-1500:]})
                continue
            rules = re.findall(r"^\t(bin/\S+)\s+(\S+)\s+>\s*\.\./\.\./(src/backend/\S+)\s*$", open(mk).read(), re.M)
            if len(rules) < 3:
                ctx.inconclusive.append("could not read the generate rules of tools/%s/Makefile" % gen)
            for binp, arg, target in rules:
                env = dict(os.environ, ASAN_OPTIONS="detect_leaks=0:abort_on_error=1", UBSAN_OPTIONS="halt_on_error=1:abort_on_error=1")
                p = subprocess.run([os.path.join(d, binp), arg], stdout=subprocess.PIPE, stderr=subprocess.PIPE, env=env, timeout=120)
                key = "%s %s -> %s" % (binp, arg, target)
                if p.returncode:
                    ctx.violation("generator-crashed:%s:%s" % (gen, variant), {"build": "generators-" + variant, "detail": key, "report": p.stderr.decode()[-2500:]})
                    continue
                try:
                    have = open(os.path.join(REPO, target), "rb").read()
                except FileNotFoundError:
                    ctx.violation("generated-file-missing:" + os.path.basename(target), {"build": "generators", "detail": key})
                    continue
                n_cmp += 1
                ctx.add_classes([("gen", variant, target)])
                if p.stdout != have:
                    a, b = p.stdout.decode(errors="replace").splitlines(), have.decode(errors="replace").splitlines()
                    first = next((i for i in range(min(len(a), len(b))) if a[i] != b[i]), min(len(a), len(b)))
                    ctx.violation("generated-file-differs:" + os.path.basename(target),
                                  {"build": "generators-" + variant, "detail": "%s: generator output and checked-in file differ at line %d: generator %r / file %r" % (
                                      key, first + 1, a[first] if first < len(a) else None, b[first] if first < len(b) else None)})
                elif len(ctx.samples) < 12 and variant == "plain" and arg == "192":
                    ctx.samples.append({"h": "generator-diff", "rule": key, "bytes": len(have), "identical": True})
    ctx.count("generator_outputs_compared", n_cmp)
    ctx.count("evaluations", n_cmp)
    if n_cmp < 42 and not ctx.viol:
        ctx.inconclusive.append("only %d generator outputs compared (expected 21 files x 2 builds)" % n_cmp)


@check("C05", "exploration", floor=5000)
def c05(ctx):
    import subprocess, sys
    load_replay(ctx)
    ctx.model_selfcheck()
    # instrument self-test first: a broken interpreter must never produce a verdict
    st = subprocess.run([sys.executable, VERIF + "/emu/selftest.py"], stdout=subprocess.PIPE, stderr=subprocess.PIPE)
    if st.returncode:
        raise core.Inconclusive("interpreter self-test failed: " + st.stdout.decode() + st.stderr.decode()[-800:])
    ctx.assumptions.append("interpreters: " + st.stdout.decode().strip())
    # ---- monitor 1: portable C backend, natively, on every build
    NR = ctx.q(40, 20000)
    builds = build_set(ctx, ctx.q(["prod", "gcc-O0", "gcc-O2", "clang-O3", "asan-gcc"], ["prod"] + MATRIX + ["asan-gcc", "asan-clang"]))
    if not ctx.replay or (ctx.replay.get("build") or "").split("/")[0] not in EMU_TARGETS + ["llvm"]:
        run_harness_on(ctx, "h_perm.c", builds, ["--p1", NR], ctx.q(2, 16))
    # ---- monitor 2: assembly backends in the interpreters
    permtool = os.path.join(ctx.scratch, "permtool")
    ctx.sh(["gcc", "-O2", "-o", permtool, VERIF + "/model/permtool.c", VERIF + "/model/model.c"])
    jobs = []
    sys.path.insert(0, VERIF + "/emu")
    import llvm_roundtrip, backend_check
    stub = os.path.join(ctx.scratch, "avrstub")
    os.makedirs(os.path.join(stub, "avr"), exist_ok=True)
    open(os.path.join(stub, "avr", "io.h"), "w").write("/* stub */\n")
    rtdir = os.path.join(ctx.scratch, "llvm")
    os.makedirs(rtdir, exist_ok=True)
    backend = REPO + "/src/backend"
    for t in EMU_TARGETS:
        for kb in (128, 192, 256):
            tag = "%s/%d" % (t, kb)
            base = [sys.executable, VERIF + "/emu/backend_check.py", "--repo", REPO, "--target", t, "--keybits", str(kb), "--permtool", permtool,
                    "--seed", str(ctx.seed)] + (["--thorough"] if ctx.thorough else [])
            rp = ctx.replay
            if rp and rp.get("build") not in (tag, "llvm:" + tag):
                continue
            only = ["--only", str(rp["index"])] if rp and rp.get("index") is not None else []
            if not rp or rp.get("build") == tag:
                jobs.append({"cmd": base + only, "tag": tag})
            # LLVM's independent reading of the same file
            suffix, family, macros, kw, want = backend_check.TARGETS[t]
            if t in llvm_roundtrip.ASM:
                path = "%s/tinyjambu-%d-asm-%s.S" % (backend, kb, suffix)
                obj, err = llvm_roundtrip.assemble(t, path, macros, backend, stub, rtdir) if os.path.exists(path) else (None, "file missing")
                ctx.count("llvm_assembled_files", 1 if obj else 0)
                if not obj:
                    ctx.violation("does-not-assemble:%s" % tag, {"build": "llvm:" + tag, "report": err})
                    continue
                if t == "avr5":
                    continue            # LLVM 14's AVR disassembler is incomplete: assemble-only
                text, n = llvm_roundtrip.disassembly_text(obj, "tinyjambu_permutation_%d" % kb)
                if text is None:
                    ctx.inconclusive.append("llvm-objdump could not decode %s: %s" % (tag, n))
                    continue
                tf = os.path.join(rtdir, "%s-%d.txt" % (t, kb))
                open(tf, "w").write(text)
                if not rp or rp.get("build") == "llvm:" + tag:
                    jobs.append({"cmd": base + ["--text", tf] + only, "tag": "llvm:" + tag})
    ctx.run_jobs(jobs, timeout=3000)
    if not ctx.replay:
        if ctx.stats.get("interpreted_programs", 0) < 27 + 18 and not ctx.viol:
            ctx.inconclusive.append("only %d interpreted programs ran (27 source readings + 18 LLVM readings expected)" % ctx.stats.get("interpreted_programs", 0))
        # ---- monitor 3
        generator_diff(ctx)
    ctx.extra_cov["programs"] = int(ctx.stats.get("interpreted_programs", 0)) + 3
    ctx.rule = ("30 backend programs: the 3 portable C permutations executed natively on every build (all 128 single-bit states x zero key, all single-bit keys "
                "x zero state, all-ones, all-zero, random; every round count 1..24; key words and a canary after the struct unchanged) and 27 assembly programs "
                "(24 .S files, the Xtensa files under both ABIs) preprocessed with the macro set that selects them and executed instruction by instruction in "
                "interpreters with monitors for result == bit-serial spec, write set, read set, alignment, callee-saved registers, stack pointer, return address, "
                "encodability (Thumb-1, RV32E register file), data-independent instruction trace per round count. quick: all structured inputs at 3 rounds + 6 random "
                "inputs for each of {1,2,3,5,8,9,10,20,24} rounds; thorough: all structured inputs and 1200 random ones for every round count 1..24. For ARM/Thumb/RISC-V "
                "the files are also assembled with LLVM 14 and LLVM's disassembly is executed under the same monitors (independent decode); AVR is assemble-only. "
                "Generated files: the 3 generator directories are rebuilt with their own Makefiles (plain and ASan/UBSan) and the 21 outputs compared byte for byte. "
                "class = (program, rounds, input family, input index) | native (key size, rounds, input) | generator rule.")
    ctx.exhaustive = False
    ctx.assumptions += ["no real or emulated silicon and no vendor assembler: the interpreters were written for this task (self-tested against hand-computed values; "
                        "ARM, Thumb and RISC-V decodes cross-checked by executing LLVM's disassembly; Xtensa and AVR decodes rest on the self-tests)",
                        "states and keys are sampled; single-bit families give every tap and every key bit a dedicated witness"]
