"""Trace-equivalence monitor (C07 monitor B): runs ct_trace under lackey for several secrets per shape and compares
the instruction/data address trace between the two marker functions."""
import hashlib, os, re, subprocess


def marker_addrs(exe):
    out = subprocess.run(["nm", exe], stdout=subprocess.PIPE).stdout.decode()
    a = {}
    for l in out.splitlines():
        p = l.split()
        if len(p) == 3 and p[2] in ("ct_marker_begin", "ct_marker_end"):
            a[p[2]] = int(p[0], 16)
    return a.get("ct_marker_begin"), a.get("ct_marker_end")


def trace_digest(exe, shape, workdir, secret, begin, end, keep=None):
    """-> (sha256 of the trace between the markers, number of trace lines, instruction lines)"""
    os.makedirs(workdir, exist_ok=True)
    with open(os.path.join(workdir, "secret.bin"), "wb") as f:
        f.write(secret)
    log = os.path.join(workdir, "trace.log")
    env = {"PATH": "/usr/bin:/bin"}
    p = subprocess.run(["setarch", "-R", "valgrind", "--tool=lackey", "--trace-mem=yes", "--log-file=" + log, exe, str(shape)],
                       cwd=workdir, env=env, stdout=subprocess.PIPE, stderr=subprocess.PIPE, timeout=600)
    if p.returncode:
        return None, 0, 0
    h = hashlib.sha256()
    n = ni = 0
    on = False
    b = "%08x" % begin
    e = "%08x" % end
    lines = [] if keep is not None else None
    with open(log, "rb") as f:
        for raw in f:
            if raw.startswith(b"=="):
                continue
            if raw.startswith(b"I"):
                addr = raw[1:].strip().split(b",")[0].decode().rjust(8, "0")
                if not on and addr == b:
                    on = True
                elif on and addr == e:
                    break
                if on:
                    ni += 1
            if on:
                h.update(raw)
                n += 1
                if lines is not None and len(lines) < keep:
                    lines.append(raw.decode(errors="replace").rstrip())
    os.remove(log)
    if keep is not None:
        return h.hexdigest(), n, ni, lines
    return h.hexdigest(), n, ni
